import PyYetiVerif.Lemmas.BulkCord
/-!
# C13 — `wtcoordcards` → `rdcord2cards`, `uset2bulk` → `bulk2uset` (card level)

Property theorems only.  Level: physical lines; identifiers exact, the nine A/B/C values are opaque
`{:16.8e}` fields of which the theorem says that the reader returns `nasScan field` (the decimal codec
is C12's subject).  `rdcord2cards` is modelled up to the twelve numbers per card it hands to
`n2p.build_coords`; `bulk2uset` up to the arrays it hands to `n2p.addgrid` (geometry: C14; both are
tied by correspondence through the real `build_coords` and by the round-trip oracle).
-/
namespace PyYetiVerif.C13
open PyYetiVerif.Bulk

/-- `rdcord2cards (wtcoordcards ci)` on physical lines (comment line, three 16-wide lines with the
continuation mark in column 73): one row `[cid, type, ref, A1 … C3]` per written system, in order, the
type taken from the card name; the file may be surrounded by any lines that are no CORD2x cards
(the following one not starting with `*`). -/
theorem cord2_roundtrip (cs : List CordIn) (hc : ∀ c ∈ cs, c.Clean)
    (hn : ∀ c ∈ cs, ∀ f ∈ c.abc, (nasScan f).isNumber = true) (pre tail : List Txt)
    (hp : ∀ l ∈ pre, cord2Match l = false) (ht : ∀ l ∈ tail, cord2Match l = false)
    (hh : ∀ x, tail.head? = some x → isCont .f16 x = false) :
    rdCord2 (pre ++ (cordLines cs ++ tail)) = some (cs.map CordIn.row) :=
  rdCord2_cordLines cs hc hn pre tail hp ht hh

/-- `uset2bulk` → the two readers of `bulk2uset`: from the one written file `rdgrids` recovers every
grid row (id, 0, x, y, z, cd, 0, 0) and `rdcord2cards` every coordinate card, neither disturbed by
the other's cards or the comment blocks. -/
theorem uset_roundtrip (cs : List CordIn) (hc : ∀ c ∈ cs, c.Clean)
    (hn : ∀ c ∈ cs, ∀ f ∈ c.abc, (nasScan f).isNumber = true)
    (ids : List Int) (xyz : List (Txt × Txt × Txt)) (cd : List Int)
    (hg : (GridIn.mk ids (.scalar 0) xyz (.vec cd) (.scalar none) (.scalar none) true).Compat)
    (hclean : ∀ r ∈ (GridIn.mk ids (.scalar 0) xyz (.vec cd) (.scalar none) (.scalar none) true).rows, r.Clean 16) :
    ∃ L, usetLines cs ids xyz cd = .ok L ∧
      rdGrids L = .rows ((GridIn.mk ids (.scalar 0) xyz (.vec cd) (.scalar none) (.scalar none) true).rows.map GRow.vals) ∧
      rdCord2 L = some (cs.map CordIn.row) := by
  have hrows := gridLines_rows _ hg
  have := uset_read cs hc hn _ rfl hg hclean _ hrows
  refine ⟨_, ?_, this⟩
  simp only [usetLines, hrows]

/-! ### non-vacuity -/

def exCord : CordIn :=
  { name := txt "CORD2C", cid := 10, ref := 0,
    abc := List.replicate 9 (txt "  1.00000000e+02") }

example : exCord.Clean := by
  refine ⟨by decide, by decide, ?_, by decide, by decide⟩
  intro f hf
  simp [exCord] at hf
  subst hf
  exact ⟨⟨by decide, by decide, by decide⟩, by intro c hc; simp [txt] at hc; subst hc; decide⟩

example : exCord.row.take 3 = [.int 10, .int 2, .int 0] := by decide
example : (cordLines [exCord]).length = 4 := by decide

end PyYetiVerif.C13
