import PyYetiVerif.Props.C10
import PyYetiVerif.Lemmas.FdeDamage
import PyYetiVerif.Lemmas.FdePsd
import PyYetiVerif.Lemmas.FdePsdOut
import PyYetiVerif.Lemmas.FdeSrs
import PyYetiVerif.Lemmas.FindapScale
/-!
# C10 (continued) — the fatigue-damage-equivalent PSD bookkeeping of `fdepsd` / `_dofde`

Property theorems only (helper lemmas live in `Lemmas/Fde*.lean`).  The model
(`Model/Fde.lean`, `Model/FdePsd.lean`: everything after `scipy.signal.lfilter` for one
frequency) is tied to `fdepsd.py` by the numeric worker stream of harness/props/c10.py, which
runs the *same definitions* at `Float` on the implementation's own filtered responses and compares
every returned table.

Statements are over exact arithmetic (`ℝ`, or any linearly ordered field where no transcendental
function is involved).  A cycle is `(amp, count)`.
-/
set_option linter.unusedSectionVars false
set_option linter.unusedVariables false
namespace PyYetiVerif.C10
open PyYetiVerif.Fde

/-! ### the largest cycle amplitude never exceeds the SRS peak -/

section field
variable {α : Type} [Field α] [LinearOrder α] [IsStrictOrderedRing α]

/-- every cycle counted for one frequency — `rainflow(resphist[findap(resphist)])` — has amplitude
`|a − b| / 2` for two samples of the response history, hence at most `SRSmax = max |resphist|`;
in particular `Amax ≤ SRSmax`. -/
theorem amax_le_srs (tol : α) (y : List α) (cyc : List (α × α)) (S : α)
    (hcyc : cyclesOf tol y = some cyc) (hS : srsPeak y = some S) :
    (∀ d ∈ cyc, d.1 ≤ S) ∧ ∀ am, amax cyc = some am → am ≤ S := by
  have hall : ∀ d ∈ cyc, d.1 ≤ S := by
    intro d hd
    obtain ⟨⟨a, ha, b, hb, e⟩, _⟩ := cyclesOf_spec tol y cyc hcyc d hd
    have h1 := srsPeak_spec y S hS a ha
    have h2 := srsPeak_spec y S hS b hb
    have h3 : |a - b| ≤ |a| + |b| := abs_sub a b
    rw [e]
    linarith
  refine ⟨hall, ?_⟩
  intro am ham
  obtain ⟨⟨d, hd, e⟩, _⟩ := amax_spec cyc am ham
  rw [← e]; exact hall d hd

/-! ### `bincount` and the damage indicators -/

/-- `bincount[j, k]` is the total count of the cycles with `binamps[j, k] ≤ amp < binamps[j, k+1]`
("left-side inclusive"), the last entry that of the cycles with `amp ≥ binamps[j, -1]`. -/
theorem bincount_spec (nbins : Nat) (cycles : List (α × α)) (r : Row α)
    (h : row nbins cycles = some r) (ha : ∀ d ∈ cycles, 0 ≤ d.1) :
    r.bincount = perBin cycles r.levels := by
  obtain ⟨h1, h2, h3, h4, _⟩ := row_spec nbins cycles r h
  obtain ⟨⟨d, hd, e⟩, _⟩ := amax_spec cycles r.amax h1
  have ham : 0 ≤ r.amax := by rw [← e]; exact ha d hd
  rw [h4, h3]
  exact binCount_counts cycles r.levels (by rw [h2]; exact binAmps_pairwise nbins r.amax ham)

/-- `di_sig`: `Df_b = Σ_k binamps[k] ^ b · bincount[k]` over the (binamps, bincount) table, for the
three exponents the code uses (the code's `(BinAmps[j] ** b).dot(BinCount[j])`). -/
theorem damage_def (nbins : Nat) (cycles : List (α × α)) (r : Row α) (h : row nbins cycles = some r) :
    r.df4 = ((r.levels.zip r.bincount).map fun p => p.1 ^ 4 * p.2).sum ∧
    r.df8 = ((r.levels.zip r.bincount).map fun p => p.1 ^ 8 * p.2).sum ∧
    r.df12 = ((r.levels.zip r.bincount).map fun p => p.1 ^ 12 * p.2).sum := by
  obtain ⟨_, _, _, _, h5, h6, h7⟩ := row_spec nbins cycles r h
  exact ⟨by rw [h5, damage_eq_sum], by rw [h6, damage_eq_sum], by rw [h7, damage_eq_sum]⟩

/-- the same indicator cycle by cycle: every cycle contributes `L ^ b · count`, where `L` is the
left edge of its amplitude bin (`floorLevel`: the last level `≤ amp`; the first level is `0`). -/
theorem damage_per_cycle (b : Nat) (nbins : Nat) (cycles : List (α × α)) (r : Row α)
    (h : row (nbins + 1) cycles = some r) (ha : ∀ d ∈ cycles, 0 ≤ d.1) :
    ∃ rest, r.levels = 0 :: rest ∧
      damage b r.levels r.bincount = (cycles.map fun d => floorLevel d.1 0 rest ^ b * d.2).sum := by
  obtain ⟨h1, h2, _⟩ := row_spec (nbins + 1) cycles r h
  obtain ⟨⟨d, hd, e⟩, _⟩ := amax_spec cycles r.amax h1
  have ham : 0 ≤ r.amax := by rw [← e]; exact ha d hd
  have hb := bincount_spec (nbins + 1) cycles r h ha
  have hs : r.levels.Pairwise (· ≤ ·) := by rw [h2]; exact binAmps_pairwise _ r.amax ham
  rw [binAmps_succ] at h2
  refine ⟨_, h2, ?_⟩
  rw [hb]
  rw [h2] at hs ⊢
  rw [damage_per_cycle_aux b cycles _ 0 hs]
  congr 1
  apply List.map_congr_left
  intro d hd
  simp [ha d hd]

/-- the cumulative counts of the scaled table at the scaled levels are the original ones, `Amax`
and the levels scale with `c`, the damage indicators with `c ^ b` -/
theorem table_scaling (c : α) (hc : 0 < c) (nbins : Nat) (cycles : List (α × α)) :
    row nbins (scaleCycles c cycles) = (row nbins cycles).map (scaleRow c) :=
  row_scale c hc nbins cycles

end field

/-! ### the test variances reproduce the signal damage -/

/-- `Dt_b > 0` on the domain of the formulas (`f·T0 > 1` for `absacce`, where
`Dt_b = b!!·2^{b/2}·(e^u − Σ_{k ≤ b/2} u^k / k!)` with `u = ln(f·T0)` is a Taylor remainder of
`exp`; `f·T0 > 0`, `≠ 1` for `pvelo`). -/
theorem test_damage_positive (resp : Resp) (Q f T0 am g2m df4 df8 df12 : ℝ)
    (h : InDomain resp f T0) :
    0 < (psdOut resp Q f T0 am g2m df4 df8 df12).dt4 ∧
      0 < (psdOut resp Q f T0 am g2m df4 df8 df12).dt8 ∧
      0 < (psdOut resp Q f T0 am g2m df4 df8 df12).dt12 := by
  obtain ⟨-, -, -, -, -, e4, e8, e12, -⟩ := psdOut_fields resp Q f T0 am g2m df4 df8 df12
  rw [e4, e8, e12]
  exact psdRow_dt_pos resp Q f T0 am g2m df4 df8 df12 h

/-- with the `Dt_b` and `sig2_b` the code SOLVES with (before the output scaling of the `pvelo`
branch): `Dt_b · sig2_b ^ (b/2) = Df_b` (both `resp`). -/
theorem test_variance_reproduces_internal (resp : Resp) (Q f T0 am g2m df4 df8 df12 : ℝ)
    (h : InDomain resp f T0) (h4 : 0 ≤ df4) (h8 : 0 ≤ df8) (h12 : 0 ≤ df12) :
    let p := psdRow resp Q f T0 am g2m df4 df8 df12
    p.dt4 * p.v4 ^ 2 = df4 ∧ p.dt8 * p.v8 ^ 4 = df8 ∧ p.dt12 * p.v12 ^ 6 = df12 := by
  intro p
  obtain ⟨d4, d8, d12⟩ := psdRow_dt_pos resp Q f T0 am g2m df4 df8 df12 h
  obtain ⟨v4, v8, v12⟩ := psdRow_v resp Q f T0 am g2m df4 df8 df12
  have cancel : ∀ a b : ℝ, 0 < a → a * (b / a) = b := by intro a b ha; field_simp
  refine ⟨?_, ?_, ?_⟩
  · show (psdRow resp Q f T0 am g2m df4 df8 df12).dt4 * (psdRow resp Q f T0 am g2m df4 df8 df12).v4 ^ 2 = df4
    rw [v4, Real.sq_sqrt (div_nonneg h4 d4.le)]; exact cancel _ _ d4
  · show (psdRow resp Q f T0 am g2m df4 df8 df12).dt8 * (psdRow resp Q f T0 am g2m df4 df8 df12).v8 ^ 4 = df8
    rw [v8, root4_pow _ (div_nonneg h8 d8.le)]; exact cancel _ _ d8
  · show (psdRow resp Q f T0 am g2m df4 df8 df12).dt12 * (psdRow resp Q f T0 am g2m df4 df8 df12).v12 ^ 6 = df12
    rw [v12, root6_pow _ (div_nonneg h12 d12.le)]; exact cancel _ _ d12

/-- helper: the rescaled `Dt_b` against the un-halved `sig2_b` — factor `1` (`absacce`) or
`2 ^ (b/2)` (`pvelo`; this was the returned table before repair 4ed3a4d, finding F25). -/
theorem row_relation_factor (resp : Resp) (Q f T0 am g2m df4 df8 df12 : ℝ)
    (h : InDomain resp f T0) (h4 : 0 ≤ df4) (h8 : 0 ≤ df8) (h12 : 0 ≤ df12) :
    (psdRow resp Q f T0 am g2m df4 df8 df12).dto4 * (psdRow resp Q f T0 am g2m df4 df8 df12).v4 ^ 2
      = (match resp with | .absacce => 1 | .pvelo => 4) * df4 ∧
    (psdRow resp Q f T0 am g2m df4 df8 df12).dto8 * (psdRow resp Q f T0 am g2m df4 df8 df12).v8 ^ 4
      = (match resp with | .absacce => 1 | .pvelo => 16) * df8 ∧
    (psdRow resp Q f T0 am g2m df4 df8 df12).dto12 * (psdRow resp Q f T0 am g2m df4 df8 df12).v12 ^ 6
      = (match resp with | .absacce => 1 | .pvelo => 64) * df12 := by
  obtain ⟨a, b, c⟩ := test_variance_reproduces_internal resp Q f T0 am g2m df4 df8 df12 h h4 h8 h12
  obtain ⟨o4, o8, o12⟩ := psdRow_dto resp Q f T0 am g2m df4 df8 df12
  cases resp <;> exact ⟨by rw [o4, mul_assoc, a], by rw [o8, mul_assoc, b], by rw [o12, mul_assoc, c]⟩

/-- **both `resp` settings**: the returned tables satisfy the documented relation
`di_test · var_test ^ (b/2) = di_sig`. -/
theorem test_variance_reproduces (resp : Resp) (Q f T0 am g2m df4 df8 df12 : ℝ)
    (h : InDomain resp f T0) (h4 : 0 ≤ df4) (h8 : 0 ≤ df8) (h12 : 0 ≤ df12) :
    let p := psdOut resp Q f T0 am g2m df4 df8 df12
    p.dto4 * p.v4 ^ 2 = df4 ∧ p.dto8 * p.v8 ^ 4 = df8 ∧ p.dto12 * p.v12 ^ 6 = df12 := by
  intro p
  obtain ⟨a, b, c⟩ := row_relation_factor resp Q f T0 am g2m df4 df8 df12 h h4 h8 h12
  obtain ⟨-, -, -, -, -, -, -, -, d4, d8, d12⟩ := psdOut_fields resp Q f T0 am g2m df4 df8 df12
  obtain ⟨e4, e8, e12⟩ := psdOut_v resp Q f T0 am g2m df4 df8 df12
  show (psdOut resp Q f T0 am g2m df4 df8 df12).dto4 * (psdOut resp Q f T0 am g2m df4 df8 df12).v4 ^ 2 = df4 ∧
    (psdOut resp Q f T0 am g2m df4 df8 df12).dto8 * (psdOut resp Q f T0 am g2m df4 df8 df12).v8 ^ 4 = df8 ∧
    (psdOut resp Q f T0 am g2m df4 df8 df12).dto12 * (psdOut resp Q f T0 am g2m df4 df8 df12).v12 ^ 6 = df12
  rw [d4, d8, d12, e4, e8, e12]
  cases resp
  · simp only [div_one, one_mul] at a b c ⊢
    exact ⟨a, b, c⟩
  · refine ⟨?_, ?_, ?_⟩
    · have : ∀ x y : ℝ, x * (y / 2) ^ 2 = (x * y ^ 2) / 4 := by intro x y; ring
      rw [this, a]; ring
    · have : ∀ x y : ℝ, x * (y / 2) ^ 4 = (x * y ^ 4) / 16 := by intro x y; ring
      rw [this, b]; ring
    · have : ∀ x y : ℝ, x * (y / 2) ^ 6 = (x * y ^ 6) / 64 := by intro x y; ring
      rw [this, c]; ring

/-- the returned `var_test` is the documented variance of the SDOF response to the damage-based
PSD: `σ²_absacce = (π/2)·f·Q·G_b`, `σ²_pvelo = Q·G_b/(8πf)`. -/
theorem var_test_is_documented_variance (resp : Resp) (Q f T0 am g2m df4 df8 df12 : ℝ)
    (hQ : 0 < Q) (hf : 0 < f) :
    let p := psdOut resp Q f T0 am g2m df4 df8 df12
    let k : ℝ := match resp with
      | .absacce => (Real.pi / 2) * f * Q
      | .pvelo => Q / (8 * Real.pi * f)
    p.v4 = k * p.g4 ∧ p.v8 = k * p.g8 ∧ p.v12 = k * p.g12 := by
  intro p k
  have hpi := Real.pi_pos
  cases resp with
  | absacce =>
      simp only [p, k, psdOut, psdRow, pi_def]
      push_cast
      refine ⟨?_, ?_, ?_⟩ <;> field_simp
  | pvelo =>
      simp only [p, k, psdOut, psdRow, pi_def]
      push_cast
      refine ⟨?_, ?_, ?_⟩ <;> field_simp <;> ring

/-! ### monotonicity in the damage -/

/-- more signal damage never lowers the damage-based PSD: `G_b` is non-decreasing in `Df_b`. -/
theorem G_b_monotone_in_damage (resp : Resp) (Q f T0 am g2m df4 df8 df12 df4' df8' df12' : ℝ)
    (h : InDomain resp f T0) (hQ : 0 < Q) (hf : 0 < f)
    (h4 : 0 ≤ df4) (h8 : 0 ≤ df8) (h12 : 0 ≤ df12) (m4 : df4 ≤ df4') (m8 : df8 ≤ df8') (m12 : df12 ≤ df12') :
    (psdOut resp Q f T0 am g2m df4 df8 df12).g4 ≤ (psdOut resp Q f T0 am g2m df4' df8' df12').g4 ∧
    (psdOut resp Q f T0 am g2m df4 df8 df12).g8 ≤ (psdOut resp Q f T0 am g2m df4' df8' df12').g8 ∧
    (psdOut resp Q f T0 am g2m df4 df8 df12).g12 ≤ (psdOut resp Q f T0 am g2m df4' df8' df12').g12 := by
  obtain ⟨-, -, a4, a8, a12, -⟩ := psdOut_fields resp Q f T0 am g2m df4 df8 df12
  obtain ⟨-, -, b4, b8, b12, -⟩ := psdOut_fields resp Q f T0 am g2m df4' df8' df12'
  rw [a4, a8, a12, b4, b8, b12]
  obtain ⟨d4, d8, d12⟩ := psdRow_dt_pos resp Q f T0 am g2m df4 df8 df12 h
  obtain ⟨i4, i8, i12⟩ := psdRow_dt_indep resp Q f T0 am g2m df4 df8 df12 am g2m df4' df8' df12'
  obtain ⟨v4, v8, v12⟩ := psdRow_v resp Q f T0 am g2m df4 df8 df12
  obtain ⟨w4, w8, w12⟩ := psdRow_v resp Q f T0 am g2m df4' df8' df12'
  obtain ⟨g4, g8, g12⟩ := psdRow_g resp Q f T0 am g2m df4 df8 df12
  obtain ⟨k4, k8, k12⟩ := psdRow_g resp Q f T0 am g2m df4' df8' df12'
  have hk := gFactor_pos resp Q f hQ hf
  rw [g4, g8, g12, k4, k8, k12, v4, v8, v12, w4, w8, w12, ← i4, ← i8, ← i12]
  refine ⟨?_, ?_, ?_⟩
  · exact mul_le_mul_of_nonneg_right (Real.sqrt_le_sqrt (div_le_div_of_nonneg_right m4 d4.le)) hk.le
  · exact mul_le_mul_of_nonneg_right (Real.rpow_le_rpow (div_nonneg h8 d8.le)
      (div_le_div_of_nonneg_right m8 d8.le) (by norm_num)) hk.le
  · exact mul_le_mul_of_nonneg_right (Real.rpow_le_rpow (div_nonneg h12 d12.le)
      (div_le_div_of_nonneg_right m12 d12.le) (by norm_num)) hk.le

/-! ### `G2 ≥ G1` for the loop as the code runs it -/

/-- the `G2max` loop never lowers `Amax²` (so `G2 ≥ G1`, both being `G?max` times the same positive
factor): whenever a level at or above `Amax/3` is examined its cumulative count is positive and
below the total (`Count[j, 0]`; equality would make the code divide by zero). -/
theorem G2_ge_G1_loop (am : ℝ) (ham : 0 < am) (lv : List ℝ) (c0 : ℝ) (cs : List ℝ)
    (h : ∀ p ∈ lv.zip (c0 :: cs), am / 3 ≤ p.1 → 0 < p.2 ∧ p.2 < c0) :
    am * am ≤ g2max am lv (c0 :: cs) := by
  unfold g2max
  simp only []
  cases hc : g2cands am (TransOps.log c0) lv (c0 :: cs) with
  | nil => exact le_refl _
  | cons t ts =>
      simp only []
      split
      · rename_i hpos
        have hmem : argmaxT t ts ∈ g2cands am (TransOps.log c0) lv (c0 :: cs) := by
          rw [hc]; exact argmaxT_mem ts t
        obtain ⟨p, hp, hthr, e1, e2, e3⟩ := g2cands_mem am _ lv (c0 :: cs) _ hmem
        obtain ⟨hp0, hpc⟩ := h p hp hthr
        have hp1 : 0 < p.1 := by linarith
        rw [e3] at hpos
        rw [e1, e2]
        have := G2_ge_G1 (p.1 * p.1) (am * am) (Real.log p.2) (Real.log c0) (by positivity)
          (by positivity) (Real.log_lt_log hp0 hpc) hpos
        unfold g2update at this
        exact le_of_lt this
      · exact le_refl _

/-! ### quadratic scaling -/

/-- everything returned for one frequency when the cycle table is that of the scaled signal -/
noncomputable def scaleTab (c : ℝ) (t : TableOut ℝ) : TableOut ℝ :=
  { row := scaleRow c t.row, g2max := c ^ 2 * t.g2max, psd := scalePsd c t.psd }

/-- **scaling the signal by `c > 0`** (so that every cycle amplitude is multiplied by `c`, counts
unchanged — `cycle_table_scaling` below) **scales every PSD output (`G1, G2, G4, G8, G12`,
`var_test`, `G2max`) by `c²`, the peak amplitudes and the amplitude bins by `c`, the damage
indicators by `c ^ b`, and leaves `count`, `bincount`, `di_test` unchanged.** -/
theorem psd_quadratic_scaling (resp : Resp) (c Q f T0 : ℝ) (hc : 0 < c) (hQ : 0 < Q) (nbins : Nat)
    (cycles : List (ℝ × ℝ)) (hdom : InDomain resp f T0)
    (ha : ∀ d ∈ cycles, 0 ≤ d.1) (hn : ∀ d ∈ cycles, 0 ≤ d.2) :
    fdeTable resp Q f T0 nbins (scaleCycles c cycles)
      = (fdeTable resp Q f T0 nbins cycles).map (scaleTab c) := by
  unfold fdeTable
  rw [row_scale c hc]
  cases hr : row nbins cycles with
  | none => rfl
  | some r =>
      obtain ⟨_, _, _, _, n8, n12⟩ := row_nonneg nbins cycles r hr ha hn
      obtain ⟨_, d8, d12⟩ := psdRow_dt_pos resp Q f T0 r.amax (g2max r.amax r.levels r.count)
        r.df4 r.df8 r.df12 hdom
      simp only [Option.map_some, scaleTab, scaleRow, Option.some.injEq]
      rw [g2max_scale c r.amax hc, psdOut_scale resp c Q f T0 _ _ _ _ _ hc
        (div_nonneg n8 d8.le) (div_nonneg n12 d12.le)]

/-- the cycle table of the response history scaled by `c > 0` — `findap` (default variant, any
`tol`: `stol` scales with the signal) selects the same samples, `rainflow` pairs the same points:
amplitudes are multiplied by `c`, counts unchanged. -/
theorem cycle_table_scaling (c tol : ℝ) (hc : 0 < c) (y : List ℝ) :
    cyclesOf tol (y.map (c * ·)) = (cyclesOf tol y).map (scaleCycles c) :=
  cyclesOf_scale c hc tol y

/-- all per-frequency outputs of the scaled problem -/
noncomputable def scaleFreq (c : ℝ) (o : FreqOut ℝ) : FreqOut ℝ :=
  { srs := c * o.srs, var := c ^ 2 * o.var, tab := scaleTab c o.tab }

/-- **`psd_quadratic_scaling` for the whole per-frequency worker**: multiplying the filtered
response (equivalently the input signal: `lfilter` is linear) by `c > 0` multiplies `srs`, `amp`
(peakamp) and `binamps` by `c`, `var`, `var_test` and all five PSDs by `c²`, `di_sig` by `c ^ b`,
and leaves `count`, `bincount`, `di_test` unchanged. -/
theorem psd_quadratic_scaling_signal (resp : Resp) (c Q f T0 tol : ℝ) (hc : 0 < c) (hQ : 0 < Q) (nbins : Nat)
    (y : List ℝ) (hdom : InDomain resp f T0) :
    fdeFreq resp Q f T0 nbins tol (y.map (c * ·))
      = (fdeFreq resp Q f T0 nbins tol y).map (scaleFreq c) := by
  unfold fdeFreq
  rw [srsPeak_scale c hc, cyclesOf_scale c hc, variance_scale]
  cases hs : srsPeak y with
  | none => rfl
  | some S =>
      cases hcy : cyclesOf tol y with
      | none => rfl
      | some cyc =>
          have hspec := cyclesOf_spec tol y cyc hcy
          have ha : ∀ d ∈ cyc, 0 ≤ d.1 := by
            intro d hd
            obtain ⟨⟨a, _, b, _, e⟩, _⟩ := hspec d hd
            rw [e]; positivity
          have hn : ∀ d ∈ cyc, 0 ≤ d.2 := by
            intro d hd
            rcases (hspec d hd).2 with e | e <;> rw [e] <;> norm_num
          simp only [Option.map_some]
          rw [psd_quadratic_scaling resp c Q f T0 hc hQ nbins cyc hdom ha hn]
          cases fdeTable resp Q f T0 nbins cyc with
          | none => rfl
          | some t => simp [scaleFreq]

/-! ### non-vacuity -/

example : InDomain .absacce 10 60 := by simp only [InDomain]; norm_num
example : InDomain .pvelo 10 60 := by simp only [InDomain]; norm_num
example : cyclesOf (1 / 1000000 : Rat) [0, 2, -1, 3, 0]
    = some [(1, 1 / 2), (3 / 2, 1 / 2), (2, 1 / 2), (3 / 2, 1 / 2)] := by decide +kernel
example : srsPeak ([0, 2, -1, 3, 0] : List Rat) = some 3 := by decide +kernel
example : (row 4 ([(1, 1 / 2), (3 / 2, 1 / 2), (2, 1 / 2), (3 / 2, 1 / 2)] : List (Rat × Rat))).map
    (fun r => (r.amax, r.levels, r.count, r.bincount, r.df4))
    = some (2, [0, 1 / 2, 1, 3 / 2], [2, 2, 2, 3 / 2], [0, 0, 1 / 2, 3 / 2], 259 / 32) := by
  decide +kernel
example : ∀ p ∈ ([0, 1, 2] : List ℝ).zip [4, 2, 1], (3 : ℝ) / 3 ≤ p.1 → 0 < p.2 ∧ p.2 < 4 := by
  intro p hp hthr
  simp only [List.zip_cons_cons, List.zip_nil_right, List.mem_cons, List.not_mem_nil, or_false] at hp
  rcases hp with rfl | rfl | rfl <;> first | (norm_num at hthr; done) | norm_num

end PyYetiVerif.C10
