import Mathlib.Topology.Instances.Matrix
import Mathlib.Analysis.Normed.Field.Lemmas
import Mathlib.Analysis.Normed.Ring.Lemmas
import Mathlib.Topology.Algebra.GroupWithZero
import PyYetiVerif.Props.C15d
/-!
# C15 (part e) — the limit `Ω → 0` of the apparent mass

`am_low_frequency_limit`: over any normed field the boundary apparent mass of a free-free model with a
statically determinate interface tends to the physical rigid-body mass; `cb_form_determinate`,
`cbtf_low_frequency_expansion`, `cbtf_zero_freq_is_limit`: the Craig-Bampton model of such a
structure, and why `m_bb` — what `cb.cbtf` returns at `f = 0` — is that limit.
Analysis enters only through the continuity of `det`, of the adjugate and of `x ↦ x⁻¹` away from 0.
-/
namespace PyYetiVerif.C15
open PyYetiVerif.NT Matrix Filter Topology

section limit
variable {b i 𝕜 : Type} [Fintype b] [Fintype i] [DecidableEq b] [DecidableEq i] [NormedField 𝕜]
variable (Mbb Bbb Kbb : Matrix b b 𝕜) (Mbi Bbi Kbi : Matrix b i 𝕜) (Mib Bib Kib : Matrix i b 𝕜)
  (Mii Bii Kii : Matrix i i 𝕜) (ψ : Matrix i b 𝕜) (χ : Matrix b i 𝕜)

theorem continuous_zblk {m n : Type} (M B Kk : Matrix m n 𝕜) : Continuous fun s : 𝕜 => zblk M B Kk s := by
  unfold zblk
  fun_prop

/-- the regular part of the expansion is continuous at `s = 0` and takes the value `M_rb` there -/
theorem lowfreq_regular_tendsto (hKii : IsUnit Kii.det) :
    Tendsto (fun s : 𝕜 => rbMass Mbb Mbi Mib Mii ψ χ
        - (s * s) • ((Mbi + χ * Mii) * (zblk Mii Bii Kii s)⁻¹ * (Mib + Mii * ψ)))
      (𝓝 0) (𝓝 (rbMass Mbb Mbi Mib Mii ψ χ)) := by
  have h0 : zblk Mii Bii Kii (0 : 𝕜) = Kii := by simp [zblk]
  have hdet : (zblk Mii Bii Kii (0 : 𝕜)).det ≠ 0 := by rw [h0]; exact hKii.ne_zero
  have hinv : ContinuousAt (fun s : 𝕜 => (zblk Mii Bii Kii s)⁻¹) 0 := by
    have h1 : ContinuousAt (Inv.inv : Matrix i i 𝕜 → Matrix i i 𝕜) (zblk Mii Bii Kii (0 : 𝕜)) := by
      apply continuousAt_matrix_inv
      rw [Ring.inverse_eq_inv']
      exact continuousAt_inv₀ hdet
    exact h1.comp (continuous_zblk Mii Bii Kii).continuousAt
  have hc : ContinuousAt (fun s : 𝕜 => rbMass Mbb Mbi Mib Mii ψ χ
        - (s * s) • ((Mbi + χ * Mii) * (zblk Mii Bii Kii s)⁻¹ * (Mib + Mii * ψ))) 0 := by
    apply ContinuousAt.sub continuousAt_const
    apply ContinuousAt.smul (f := fun s : 𝕜 => s * s) (by fun_prop)
    have hcont : Continuous fun X : Matrix i i 𝕜 => (Mbi + χ * Mii) * X * (Mib + Mii * ψ) :=
      (continuous_const.matrix_mul continuous_id).matrix_mul continuous_const
    exact ContinuousAt.comp (g := fun X : Matrix i i 𝕜 => (Mbi + χ * Mii) * X * (Mib + Mii * ψ))
      hcont.continuousAt hinv
  have := hc.tendsto
  simpa using this


/-- ★ `am_low_frequency_limit` — the statement of the property, no longer partial: over any normed
field (`ℂ` with `s = iΩ`), for a free-free model with a statically determinate interface (rigid-body
modes `[1; ψ]`, `[1 χ]` annihilated by `K` and `B`; `K_ii` invertible) the boundary apparent mass
tends to the physical rigid-body mass as the frequency tends to zero:
`AM(s) → M_rb` as `s → 0`, `s ≠ 0`. -/
theorem am_low_frequency_limit
    (hK1 : Kbb + Kbi * ψ = 0) (hK2 : Kib + Kii * ψ = 0) (hK3 : Kbi + χ * Kii = 0)
    (hB1 : Bbb + Bbi * ψ = 0) (hB2 : Bib + Bii * ψ = 0) (hB3 : Bbi + χ * Bii = 0)
    (hKii : IsUnit Kii.det) :
    Tendsto (fun s : 𝕜 => schurAM (accImp Mbb Bbb Kbb s⁻¹ (s⁻¹ * s⁻¹)) (accImp Mbi Bbi Kbi s⁻¹ (s⁻¹ * s⁻¹))
        (accImp Mib Bib Kib s⁻¹ (s⁻¹ * s⁻¹)) (accImp Mii Bii Kii s⁻¹ (s⁻¹ * s⁻¹)))
      (𝓝[≠] 0) (𝓝 (rbMass Mbb Mbi Mib Mii ψ χ)) := by
  have hreg := (lowfreq_regular_tendsto Mbb Mbi Mib Mii Bii Kii ψ χ hKii).mono_left
    (nhdsWithin_le_nhds (s := {0}ᶜ))
  refine hreg.congr' ?_
  -- near 0 the interior dynamic stiffness stays invertible
  have h0 : zblk Mii Bii Kii (0 : 𝕜) = Kii := by simp [zblk]
  have hdet : ContinuousAt (fun s : 𝕜 => (zblk Mii Bii Kii s).det) 0 :=
    (continuous_zblk Mii Bii Kii).matrix_det.continuousAt
  have hne : ∀ᶠ s : 𝕜 in 𝓝 0, (zblk Mii Bii Kii s).det ≠ 0 := by
    apply hdet.eventually_ne
    rw [h0]; exact hKii.ne_zero
  have hne' : ∀ᶠ s : 𝕜 in 𝓝[≠] 0, (zblk Mii Bii Kii s).det ≠ 0 := hne.filter_mono nhdsWithin_le_nhds
  filter_upwards [hne', self_mem_nhdsWithin] with s hs hs0
  exact (am_low_frequency_expansion Mbb Bbb Kbb Mbi Bbi Kbi Mib Bib Kib Mii Bii Kii ψ χ s s⁻¹
    (mul_inv_cancel₀ hs0) hK1 hK2 hK3 hB1 hB2 hB3 (isUnit_iff_ne_zero.mpr hs)).symm


/-! ### the Craig-Bampton model of such a structure, and what `cbtf` returns at `f = 0` -/

section cbform
variable {b q K : Type} [Fintype b] [Fintype q] [DecidableEq b] [DecidableEq q] [CommRing K]
variable {i : Type} [Fintype i] [DecidableEq i]

/-- the Craig-Bampton transformation `T = [[1, 0], [ψ, Φ]]` (constraint modes `ψ`, fixed-interface
modes `Φ`) applied to a partitioned matrix, block by block -/
theorem cb_transform_blocks (Xbb : Matrix b b K) (Xbi : Matrix b i K) (Xib : Matrix i b K)
    (Xii : Matrix i i K) (ψ : Matrix i b K) (Φ : Matrix i q K) :
    (fromBlocks (1 : Matrix b b K) 0 ψ Φ)ᵀ * fromBlocks Xbb Xbi Xib Xii * fromBlocks (1 : Matrix b b K) 0 ψ Φ
      = fromBlocks (Xbb + Xbi * ψ + ψᵀ * Xib + ψᵀ * Xii * ψ) ((Xbi + ψᵀ * Xii) * Φ)
          (Φᵀ * (Xib + Xii * ψ)) (Φᵀ * Xii * Φ) := by
  rw [fromBlocks_transpose, fromBlocks_multiply, fromBlocks_multiply]
  simp only [transpose_one, transpose_zero, Matrix.one_mul, Matrix.zero_mul, Matrix.mul_one,
    Matrix.mul_zero, zero_add, add_zero, Matrix.add_mul, Matrix.mul_add, Matrix.mul_assoc]
  congr 1
  abel

/-- ★ the Craig-Bampton model of a structure with a statically determinate interface (symmetric
reading: left modes `χ = ψᵀ`): its b-b mass IS the physical rigid-body mass `[1 ψᵀ] M [1; ψ]`, its
b-b, b-q, q-b stiffness (and, for a damping matrix that annihilates the rigid-body modes, damping)
blocks vanish — the hypotheses of `cbtf_low_frequency_expansion` below. -/
theorem cb_form_determinate (Mbb Kbb : Matrix b b K) (Mbi Kbi : Matrix b i K) (Mib Kib : Matrix i b K)
    (Mii Kii : Matrix i i K) (ψ : Matrix i b K) (Φ : Matrix i q K)
    (hK1 : Kbb + Kbi * ψ = 0) (hK2 : Kib + Kii * ψ = 0) (hK3 : Kbi + ψᵀ * Kii = 0) :
    ((fromBlocks (1 : Matrix b b K) 0 ψ Φ)ᵀ * fromBlocks Mbb Mbi Mib Mii
        * fromBlocks (1 : Matrix b b K) 0 ψ Φ).toBlocks₁₁ = rbMass Mbb Mbi Mib Mii ψ ψᵀ ∧
    (fromBlocks (1 : Matrix b b K) 0 ψ Φ)ᵀ * fromBlocks Kbb Kbi Kib Kii * fromBlocks (1 : Matrix b b K) 0 ψ Φ
      = fromBlocks 0 0 0 (Φᵀ * Kii * Φ) := by
  constructor
  · rw [cb_transform_blocks, toBlocks_fromBlocks₁₁]; rfl
  · rw [cb_transform_blocks, hK3, hK2]
    have : Kbb + Kbi * ψ + ψᵀ * Kib + ψᵀ * Kii * ψ = 0 := by
      rw [hK1, zero_add, Matrix.mul_assoc, ← Matrix.mul_add, hK2, Matrix.mul_zero]
    rw [this, Matrix.zero_mul, Matrix.mul_zero]

/-- ★ `cbtf_low_frequency_expansion`: for such a Craig-Bampton model the partition-vector route is
`AM(s) = m_bb − s² m_bq (s² m_qq + s b_qq + k_qq)⁻¹ m_qb` -/
theorem cbtf_low_frequency_expansion (Mbb : Matrix b b K) (Mbq : Matrix b q K) (Mqb : Matrix q b K)
    (Mqq Bqq Kqq : Matrix q q K) (s t : K) (hst : s * t = 1)
    (hE : IsUnit (zblk Mqq Bqq Kqq s).det) :
    cbtfAM Mbb 0 0 Mbq 0 Mqb 0 Mqq Bqq Kqq t (t * t)
      = Mbb - (s * s) • (Mbq * (zblk Mqq Bqq Kqq s)⁻¹ * Mqb) := by
  have h := am_low_frequency_expansion Mbb 0 0 Mbq 0 0 Mqb 0 0 Mqq Bqq Kqq 0 0 s t hst
    (by simp) (by simp) (by simp) (by simp) (by simp) (by simp) hE
  simp only [rbMass, Matrix.mul_zero, Matrix.zero_mul, add_zero] at h
  rw [← h]
  simp [cbtfAM, accImp]

end cbform

/-- ★ `cbtf_zero_freq` (second half): what `cbtf` returns at `f = 0`, `m_bb` (`cbtfAM0`), is the
limit of what it returns as `f → 0` — and by `cb_form_determinate` that is the rigid-body mass. -/
theorem cbtf_zero_freq_is_limit {q : Type} [Fintype q] [DecidableEq q]
    (Mbq : Matrix b q 𝕜) (Mqb : Matrix q b 𝕜) (Mqq Bqq Kqq : Matrix q q 𝕜) (hKqq : IsUnit Kqq.det) :
    Tendsto (fun s : 𝕜 => cbtfAM Mbb 0 0 Mbq 0 Mqb 0 Mqq Bqq Kqq s⁻¹ (s⁻¹ * s⁻¹))
      (𝓝[≠] 0) (𝓝 (cbtfAM0 Mbb)) := by
  have h := am_low_frequency_limit Mbb 0 0 Mbq 0 0 Mqb 0 0 Mqq Bqq Kqq 0 0
    (by simp) (by simp) (by simp) (by simp) (by simp) (by simp) hKqq
  simp only [rbMass, Matrix.mul_zero, Matrix.zero_mul, add_zero] at h
  refine h.congr' (Eventually.of_forall fun s => ?_)
  simp [cbtfAM, accImp]

end limit

/-! ### non-vacuity -/

/-- two masses `1` (boundary) and `2` (interior) joined by a spring `3` and a dashpot `1/2`: the
rigid-body mode is `[1; 1]`, all hypotheses of `am_low_frequency_expansion` /
`am_low_frequency_limit` hold and the rigid-body mass is `3` -/
example :
    let k : Matrix (Fin 1) (Fin 1) ℚ := (3 : ℚ) • 1
    let c : Matrix (Fin 1) (Fin 1) ℚ := (1 / 2 : ℚ) • 1
    k + (-k) * 1 = 0 ∧ -k + k * 1 = 0 ∧ -k + 1 * k = 0 ∧ c + (-c) * 1 = 0 ∧ -c + c * 1 = 0 ∧
      -c + 1 * c = 0 ∧ IsUnit k.det ∧
      rbMass (1 : Matrix (Fin 1) (Fin 1) ℚ) (0 : Matrix (Fin 1) (Fin 1) ℚ) (0 : Matrix (Fin 1) (Fin 1) ℚ)
        (2 : Matrix (Fin 1) (Fin 1) ℚ) (1 : Matrix (Fin 1) (Fin 1) ℚ) (1 : Matrix (Fin 1) (Fin 1) ℚ) = 3 := by
  intro k c
  refine ⟨by simp, by simp, by simp, by simp, by simp, by simp, ?_, ?_⟩
  · simp [k, Matrix.det_unique]
  · simp [rbMass]; norm_num

end PyYetiVerif.C15
