import PyYetiVerif.Lemmas.BulkFileOKBlocks
import PyYetiVerif.Props.C13Multi
import PyYetiVerif.Props.C13Cord
/-!
# C13 — `FileOK` derived for files assembled from written blocks

Property theorems only (helper lemmas: `Lemmas/BulkFileOK*.lean`).  `readers_independent` / `typed_readers_independent`
(`Props/C13Multi.lean`) assume `FileOK`.  Here it is DERIVED (`written_file_ok`): a file assembled, in any order and
any number, from the texts of `wtdmig` (integer-valued `Dmig.lines` and real-valued `Dmig.linesF`), `wtgrids` (every
packaging and both widths), `wtcoordcards` (comment line + CORD2x card), `wtcsuper`, `wtextrn`, `wtspoints`,
`wttabled1` (both widths), `wtset` and `$` comment lines (the blocks `uset2bulk` puts in between) — on the admissible
inputs of the round-trip theorems of each writer — satisfies `FileOK bulkReaders`, and its lines are exactly the written
texts one after the other.  Hence `readers_independent_written` / `typed_readers_independent_written` with NO `FileOK`
hypothesis.

Why the order does not matter (`file_ok_of_blocks`): every condition of `FileOK` but one concerns a segment alone
(`SegLocalOK`: the first line of a card is matched by its owner only, its continuation lines are continuation lines
of its syntax matched by nobody), and the remaining one — the line after a card is no continuation line of that
card's syntax — holds because every written block begins with a letter or `$` (`DMIG`, `GRID`, `CORD2x`, `CSUPER`,
`EXTRN`, `SPOINT`, `TABLED1`, `SET`, `$ …`), which is a continuation character of no syntax.

No written file was found for which `FileOK` is false.  The boundary is outside the writers: a junk block that begins
with a blank, `+`, `,` or `*` line directly after a card (stated in ASSUMPTIONS: "the line after a card is not a
continuation line of that card's syntax").  For SET the hypothesis "tokens fit" is sufficient, not a boundary.
-/
namespace PyYetiVerif.C13
open PyYetiVerif.Bulk

/-- **assembly in any order**: segments each well formed alone (`SegLocalOK`: owner's matcher only, continuation
lines of the card's syntax matched by nobody, first line no continuation line of any syntax) form a well-formed file -/
theorem file_ok_of_blocks (ps : List (Txt → Bool)) (segs : List Seg) (h : ∀ s ∈ segs, SegLocalOK ps s) : FileOK ps segs :=
  fileOK_of_local ps segs h

/-- **`written_file_ok`**: any sequence of admissible DMIG / GRID / CORD2x / CSUPER / EXTRN / SPOINT / TABLED1 / SET /
comment blocks is a well-formed file for the typed readers, and its lines are exactly the written texts one after
the other -/
theorem written_file_ok (bs : List WBlock) (h : ∀ b ∈ bs, b.Admissible) :
    FileOK bulkReaders (bs.flatMap WBlock.segs) ∧ fileOf (bs.flatMap WBlock.segs) = bs.flatMap WBlock.lines := by
  refine ⟨fileOK_of_local _ _ ?_, fileOf_flatMap_segs bs h⟩
  intro s hs
  obtain ⟨b, hb, hsb⟩ := List.mem_flatMap.mp hs
  exact b.segs_local (h b hb) s hsb

/-- **`typed_readers_independent_written`**: on the written file each typed reader returns what it returns on its own
cards alone — no `FileOK` hypothesis -/
theorem typed_readers_independent_written (bs : List WBlock) (h : ∀ b ∈ bs, b.Admissible) :
    let segs := bs.flatMap WBlock.segs
    fileOf segs = bs.flatMap WBlock.lines ∧
    rdDmig (fileOf segs) = rdDmig (fileOf (segs.filter (Seg.ownedBy 0))) ∧
    (∀ o, rdDmigX o (fileOf segs) = rdDmigX o (fileOf (segs.filter (Seg.ownedBy 0)))) ∧
    rdGrids (fileOf segs) = rdGrids (fileOf (segs.filter (Seg.ownedBy 1))) ∧
    rdCord2 (fileOf segs) = rdCord2 (fileOf (segs.filter (Seg.ownedBy 2))) ∧
    rdSpoints (fileOf segs) = rdSpoints (fileOf (segs.filter (Seg.ownedBy 3))) ∧
    rdCsupers (fileOf segs) = rdCsupers (fileOf (segs.filter (Seg.ownedBy 4))) ∧
    rdExtrn (fileOf segs) = rdExtrn (fileOf (segs.filter (Seg.ownedBy 5))) ∧
    rdTabled1 (txt "tabled1") (fileOf segs) = rdTabled1 (txt "tabled1") (fileOf (segs.filter (Seg.ownedBy 6))) := by
  intro segs
  obtain ⟨hok, hfile⟩ := written_file_ok bs h
  exact ⟨hfile, typed_readers_independent segs hok⟩

/-- **`readers_independent_written`**: every reader of the family, whatever `keep_name`, returns exactly the cards it
owns, in file order -/
theorem readers_independent_written (bs : List WBlock) (h : ∀ b ∈ bs, b.Admissible) (k : Nat)
    (hk : k < bulkReaders.length) (keep : Bool) :
    rdcardsBy (bulkReaders.getD k fun _ => false) keep (bs.flatMap WBlock.lines) =
      ownCards keep k (bs.flatMap WBlock.segs) := by
  obtain ⟨hok, hfile⟩ := written_file_ok bs h
  rw [← hfile]
  exact (readers_independent bulkReaders _ hok k hk keep).1

/-! ### non-vacuity: a comment, a SET statement, a CSUPER card with a continuation line, SPOINT cards, an EXTRN card, in two orders -/

def exBlocks : List WBlock :=
  [.comment [txt "$ written blocks"], .set 7 [1, 2, 3, 5] 12, .csuper 100 [1, 2, 3, 4, 5, 6, 7, 8, 9], .spoint [1001, 1002, 1003, 7], .extrn [(3, 123456), (4, 0)]]

theorem exBlocks_admissible : ∀ b ∈ exBlocks, b.Admissible := by
  intro b hb
  simp only [exBlocks, List.mem_cons, List.not_mem_nil, or_false] at hb
  rcases hb with rfl | rfl | rfl | rfl | rfl
  · intro l hl; simp only [List.mem_singleton] at hl; exact ⟨_, by rw [hl]; rfl⟩
  · exact ⟨by decide, by decide, by decide⟩
  · exact ⟨by decide, by decide⟩
  · trivial
  · exact ⟨by decide, by decide⟩

example : FileOK bulkReaders (exBlocks.flatMap WBlock.segs) := (written_file_ok exBlocks exBlocks_admissible).1

example : FileOK bulkReaders (exBlocks.reverse.flatMap WBlock.segs) :=
  (written_file_ok exBlocks.reverse (fun b hb => exBlocks_admissible b (List.mem_reverse.mp hb))).1

/-- with a CORD2C card (comment line + three physical lines, `*` in column 73) in front and a comment block behind -/
example : FileOK bulkReaders ((WBlock.cord [exCord] :: exBlocks ++ [WBlock.comment [txt "$", txt "$ end"]]).flatMap WBlock.segs) := by
  refine (written_file_ok _ ?_).1
  intro b hb
  simp only [List.cons_append, List.mem_cons, List.mem_append, List.not_mem_nil, or_false] at hb
  rcases hb with rfl | hb | rfl
  · intro c hc
    simp only [List.mem_singleton] at hc
    subst hc
    refine ⟨by decide, by decide, ?_, by decide, by decide⟩
    intro f hf
    simp [exCord] at hf
    subst hf
    exact ⟨⟨by decide, by decide, by decide⟩, by intro c hc; simp [txt] at hc; subst hc; decide⟩
  · exact exBlocks_admissible b hb
  · intro l hl
    simp only [List.mem_cons, List.not_mem_nil, or_false] at hl
    rcases hl with rfl | rfl <;> exact ⟨_, rfl⟩

end PyYetiVerif.C13
