import PyYetiVerif.Lemmas.BulkFileOKBlocks
import PyYetiVerif.Props.C13Multi
/-!
# C13 — `FileOK` derived for files assembled from written blocks

Property theorems only (helper lemmas: `Lemmas/BulkFileOK*.lean`).  `readers_independent` / `typed_readers_independent`
(`Props/C13Multi.lean`) assume `FileOK`.  Here it is DERIVED: a file assembled, in any order and any number, from the
texts of `wtcsuper`, `wtextrn`, `wtspoints`, `wttabled1` (both widths) and `wtset` on the admissible inputs of their
round-trip theorems satisfies `FileOK bulkReaders`.  The reason the order does not matter (`file_ok_of_blocks`): every
condition of `FileOK` but one concerns a segment alone, and the remaining one — the line after a card is no
continuation line of its syntax — holds because every written block begins with a letter (`CSUPER`, `EXTRN`, `SPOINT`,
`TABLED1`, `SET`), which is a continuation character of no syntax.

`_partial`: the blocks of `wtdmig`, `wtgrids` and `wtcoordcards` are not yet shown to satisfy the per-segment condition
(`SegLocalOK`; they do begin with a letter, their continuation lines with `*`, `+` or blanks): for files that hold
them `FileOK` stays checked per generated file by `fileOKb` (sound: `fileOKb_sound`).  No written file was found for which `FileOK` is false: for SET the hypothesis
"tokens fit" is sufficient, not a boundary (a statement with a cut token still begins with `S` and its characters spell no
card name; not proved here).
-/
namespace PyYetiVerif.C13
open PyYetiVerif.Bulk

/-- **assembly in any order**: segments each well formed alone (`SegLocalOK`: owner's matcher only, continuation
lines of the card's syntax matched by nobody, first line no continuation line of any syntax) form a well-formed file -/
theorem file_ok_of_blocks (ps : List (Txt → Bool)) (segs : List Seg) (h : ∀ s ∈ segs, SegLocalOK ps s) : FileOK ps segs :=
  fileOK_of_local ps segs h

/-- **`written_file_ok`, restricted** (full statement: also with the blocks of `wtdmig`, `wtgrids`, `wtcoordcards`):
any sequence of admissible CSUPER / EXTRN / SPOINT / TABLED1 / SET blocks is a well-formed file for the typed readers,
and its lines are exactly the written texts one after the other -/
theorem written_file_ok_partial (bs : List WBlock) (h : ∀ b ∈ bs, b.Admissible) :
    FileOK bulkReaders (bs.flatMap WBlock.segs) ∧ fileOf (bs.flatMap WBlock.segs) = bs.flatMap WBlock.lines := by
  refine ⟨fileOK_of_local _ _ ?_, fileOf_flatMap_segs bs⟩
  intro s hs
  obtain ⟨b, hb, hsb⟩ := List.mem_flatMap.mp hs
  exact b.segs_local (h b hb) s hsb

/-- **`typed_readers_independent_written`, restricted to the same blocks**: on the written file each typed reader
returns what it returns on its own cards alone — no `FileOK` hypothesis -/
theorem typed_readers_independent_written_partial (bs : List WBlock) (h : ∀ b ∈ bs, b.Admissible) :
    let segs := bs.flatMap WBlock.segs
    fileOf segs = bs.flatMap WBlock.lines ∧
    rdSpoints (fileOf segs) = rdSpoints (fileOf (segs.filter (Seg.ownedBy 3))) ∧
    rdCsupers (fileOf segs) = rdCsupers (fileOf (segs.filter (Seg.ownedBy 4))) ∧
    rdExtrn (fileOf segs) = rdExtrn (fileOf (segs.filter (Seg.ownedBy 5))) ∧
    rdTabled1 (txt "tabled1") (fileOf segs) = rdTabled1 (txt "tabled1") (fileOf (segs.filter (Seg.ownedBy 6))) ∧
    rdDmig (fileOf segs) = rdDmig (fileOf (segs.filter (Seg.ownedBy 0))) ∧
    rdGrids (fileOf segs) = rdGrids (fileOf (segs.filter (Seg.ownedBy 1))) := by
  intro segs
  obtain ⟨hok, hfile⟩ := written_file_ok_partial bs h
  obtain ⟨d, _, g, _, s, cs, e, t⟩ := typed_readers_independent segs hok
  exact ⟨hfile, s, cs, e, t, d, g⟩

/-- **`readers_independent_written`, restricted to the same blocks**: every reader of the family, whatever `keep_name` -/
theorem readers_independent_written_partial (bs : List WBlock) (h : ∀ b ∈ bs, b.Admissible) (k : Nat)
    (hk : k < bulkReaders.length) (keep : Bool) :
    rdcardsBy (bulkReaders.getD k fun _ => false) keep (bs.flatMap WBlock.lines) =
      ownCards keep k (bs.flatMap WBlock.segs) := by
  obtain ⟨hok, hfile⟩ := written_file_ok_partial bs h
  rw [← hfile]
  exact (readers_independent bulkReaders _ hok k hk keep).1

/-! ### non-vacuity: a SET statement, a CSUPER card with a continuation line, SPOINT cards, an EXTRN card, in two orders -/

def exBlocks : List WBlock :=
  [.set 7 [1, 2, 3, 5] 12, .csuper 100 [1, 2, 3, 4, 5, 6, 7, 8, 9], .spoint [1001, 1002, 1003, 7], .extrn [(3, 123456), (4, 0)]]

theorem exBlocks_admissible : ∀ b ∈ exBlocks, b.Admissible := by
  intro b hb
  simp only [exBlocks, List.mem_cons, List.not_mem_nil, or_false] at hb
  rcases hb with rfl | rfl | rfl | rfl
  · exact ⟨by decide, by decide, by decide⟩
  · exact ⟨by decide, by decide⟩
  · trivial
  · exact ⟨by decide, by decide⟩

example : FileOK bulkReaders (exBlocks.flatMap WBlock.segs) := (written_file_ok_partial exBlocks exBlocks_admissible).1

example : FileOK bulkReaders (exBlocks.reverse.flatMap WBlock.segs) :=
  (written_file_ok_partial exBlocks.reverse (fun b hb => exBlocks_admissible b (List.mem_reverse.mp hb))).1

end PyYetiVerif.C13
