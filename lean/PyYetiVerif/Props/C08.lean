import PyYetiVerif.Lemmas.GenMachine
/-!
# C08 — the step-wise generator equals the batch solution for any send history

Property theorems only (helper lemmas live in `Lemmas/GenMachine.lean`).  The model
`PyYetiVerif.GenMachine` (abstract one-step machine `step`, the code's behaviour on arbitrary
requests `stepApi`, and the concrete cd-as-force generator `cdfStep` with its hidden cache) is
tied to pyyeti/ode/{solveunc,solveexp2,solvecdf,_base_ode_class}.py by the history
correspondence check (harness/props/c08.py): the real generators and the Lean machines are
driven by the same request lists with the solver's own coefficients.

Continued in `Props/C08Init.lean` (initial conditions for every option combination, `finalize`:
equation of motion, partial histories), `Props/C08Inst.lean` (the real-uncoupled, SolveExp2 and
complex-modal generators, transcribed statement by statement, ARE one-step machines),
`Props/C08Api.lean` (call sequences on one solver object) and `Props/C08Branches.lean` (the
branch table regenerated from the source).

Reading of the property.  A history is a list of requests `send i f` (`gen.send((i, f))`) and
`addon f` (`gen.send((-1, f))`).  It is *valid* (the documented protocol) when every send has
`1 ≤ i ≤ last + 1` and every add-on follows a send.  "The force history in effect" is the
content of the shared `Force` array.  "Batch" is the recurrence
`x_j = T x_{j-1} + P f_{j-1} + Q f_j`, `r_j = S f_j` that `tsolve` evaluates.  "Exactly" is
exact arithmetic; in floating point the cached and the recomputed damping force differ in the
last bits (measured by the correspondence check, tolerance 1e-9 of scale).
-/
namespace PyYetiVerif.C08
open PyYetiVerif.GenMachine

section abstract
variable {V X W : Type} [Add V] [AddSemigroup X] [Add W]

/-- ★ after any valid history starting in a state that satisfies the invariant, every completed
step `1 ≤ j ≤ last` of the visible arrays satisfies the batch recurrence for the force array
currently in effect. -/
theorem gen_invariant (L : Lin V X W) (hL : AddOnAdditive L) (s₀ : State V X W)
    (h₀ : Inv L s₀) (ops : List (Op V)) (hv : Valid L s₀ ops) :
    ∀ j, 1 ≤ j → j ≤ (run L s₀ ops).cur →
      (run L s₀ ops).x j =
          L.T ((run L s₀ ops).x (j - 1)) + L.P ((run L s₀ ops).force (j - 1)) +
            L.Q ((run L s₀ ops).force j) ∧
        (run L s₀ ops).r j = L.S ((run L s₀ ops).force j) :=
  inv_run L hL ops s₀ h₀ hv

variable [Zero V] [Zero X] [Zero W]

/-- ★ from the generator's start (`_init_dva_part`): after every request of a valid history the
visible `d, v` prefix (and the static rows) hold the batch values of the force in effect;
column 0 (initial conditions, `F0`) is never modified. -/
theorem visible_eq_batch (L : Lin V X W) (hL : AddOnAdditive L) (f0 : V) (x0 : X)
    (ops : List (Op V)) (hv : Valid L (init L f0 x0) ops) :
    let s := run L (init L f0 x0) ops
    s.force 0 = f0 ∧
      ∀ j, j ≤ s.cur → s.x j = batch L s.force x0 j ∧ s.r j = L.S (s.force j) := by
  intro s
  have h₀ : Inv L (init L f0 x0) := by
    intro j h1 h2
    have : j ≤ 0 := h2
    omega
  have hi : Inv L s := inv_run L hL ops _ h₀ hv
  obtain ⟨hx0, hf0, hr0⟩ := col0_run L ops _ hv
  have hx0' : s.x 0 = x0 := hx0.trans (by simp only [init, upd_same])
  have hf0' : s.force 0 = f0 := hf0.trans (by simp only [init, upd_same])
  have hr0' : s.r 0 = L.S f0 := hr0.trans (by simp only [init, upd_same])
  refine ⟨hf0', fun j hj => ⟨?_, ?_⟩⟩
  · rw [← hx0']; exact inv_batch L s hi j hj
  · by_cases h : j = 0
    · subst h; rw [hr0', hf0']
    · exact (hi j (by omega) hj).2

/-- the visible solution depends on the force history in effect only, not on the requests that
produced it: two valid histories that end on the same step with the same forces on the completed
steps show the same `d, v` and static rows there. -/
theorem history_independent (L : Lin V X W) (hL : AddOnAdditive L) (f0 : V) (x0 : X)
    (ops₁ ops₂ : List (Op V)) (hv₁ : Valid L (init L f0 x0) ops₁)
    (hv₂ : Valid L (init L f0 x0) ops₂)
    (hcur : (run L (init L f0 x0) ops₁).cur = (run L (init L f0 x0) ops₂).cur)
    (hf : ∀ j, j ≤ (run L (init L f0 x0) ops₁).cur →
      (run L (init L f0 x0) ops₁).force j = (run L (init L f0 x0) ops₂).force j) :
    ∀ j, j ≤ (run L (init L f0 x0) ops₁).cur →
      (run L (init L f0 x0) ops₁).x j = (run L (init L f0 x0) ops₂).x j ∧
        (run L (init L f0 x0) ops₁).r j = (run L (init L f0 x0) ops₂).r j := by
  intro j hj
  obtain ⟨_, h₁⟩ := visible_eq_batch L hL f0 x0 ops₁ hv₁
  obtain ⟨_, h₂⟩ := visible_eq_batch L hL f0 x0 ops₂ hv₂
  obtain ⟨a₁, b₁⟩ := h₁ j hj
  obtain ⟨a₂, b₂⟩ := h₂ j (hcur ▸ hj)
  refine ⟨?_, by rw [b₁, b₂, hf j hj]⟩
  rw [a₁, a₂]
  exact batch_congr L _ _ x0 j (fun i hi => hf i (by omega))

/-- ★ if the history ends on the last step, `finalize` (acceleration from equilibrium, column by
column) returns what batch `tsolve` returns for the final force array. -/
theorem finalize_eq_batch {A : Type} (L : Lin V X W) (hL : AddOnAdditive L)
    (acc : X → V → A) (f0 : V) (x0 : X) (nt : Nat) (ops : List (Op V))
    (hv : Valid L (init L f0 x0) ops) (hend : (run L (init L f0 x0) ops).cur = nt - 1) :
    ∀ j, j < nt →
      finalize acc (run L (init L f0 x0) ops) j =
        tsolve L acc (run L (init L f0 x0) ops).force x0 j := by
  intro j hj
  obtain ⟨_, h⟩ := visible_eq_batch L hL f0 x0 ops hv
  obtain ⟨hx, hr⟩ := h j (by omega)
  simp only [finalize, tsolve, column, hx, hr]

omit [Zero V] [Zero X] [Zero W] in
/-- ★ `get_f2x`: whatever the history, an add-on `f` changes exactly the current column, by
`Q f` on the `(d, v)` rows and `S f` on the static rows — the blocks `get_f2x` is built from
(`B`, `Bp`, `Q[n:]`, `Q[:n]`, plus `ikrf` for displacement).  Seen through any additive
read-out `obs` (physical displacement or velocity `phi @ ·`) with the interface force mapped in
by `inj` (`phi.T @ ·`), the change is `f2x L obs inj g = obs (Q (inj g)) (S (inj g))`. -/
theorem f2x_is_unit_addon {Y G : Type} [Add Y] (L : Lin V X W) (s : State V X W)
    (obs : X → W → Y) (hobs : ∀ a b c d, obs (a + b) (c + d) = obs a c + obs b d)
    (inj : G → V) (g : G) :
    let s' := step L s (.addon (inj g))
    s'.cur = s.cur ∧
      s'.x s.cur = s.x s.cur + L.Q (inj g) ∧ s'.r s.cur = s.r s.cur + L.S (inj g) ∧
      (∀ j, j ≠ s.cur → s'.x j = s.x j ∧ s'.r j = s.r j ∧ s'.force j = s.force j) ∧
      obs (s'.x s.cur) (s'.r s.cur) =
        obs (s.x s.cur) (s.r s.cur) + f2x L obs inj g := by
  intro s'
  refine ⟨rfl, upd_same _ _ _, upd_same _ _ _, ?_, ?_⟩
  · intro j hj
    exact ⟨upd_ne _ _ hj, upd_ne _ _ hj, upd_ne _ _ hj⟩
  · show obs (upd _ _ _ _) (upd _ _ _ _) = _
    rw [upd_same, upd_same, hobs]; rfl

/-- the code's behaviour on a documented (valid, in-horizon) history is the abstract machine:
no request is refused and the arrays are those of `run`. -/
theorem api_refines (L : Lin V X W) (nt : Nat) (f0 : V) (x0 : X) (ops : List (Op V))
    (hv : Valid L (init L f0 x0) ops) (hh : InHorizon nt ops) :
    ∃ b, runApi L nt ⟨false, init L f0 x0⟩ ops = .ok ⟨b, run L (init L f0 x0) ops⟩ :=
  api_run L nt ops ⟨false, init L f0 x0⟩
    (fun h => by have : (1 : Nat) ≤ 0 := h; omega) hv hh

end abstract

/-- order 0 (`Q = 0`): an add-on leaves `d, v` unchanged (`get_f2x` returns zeros apart from
the residual-flexibility block). -/
theorem f2x_order0 {V X W : Type} [Add V] [AddMonoid X] [Add W] (L : Lin V X W)
    (hQ : ∀ f, L.Q f = 0) (s : State V X W) (f : V) :
    (step L s (.addon f)).x = s.x := by
  funext j
  show upd s.x s.cur (s.x s.cur + L.Q f) j = s.x j
  by_cases h : j = s.cur
  · subst h; rw [upd_same, hQ, add_zero]
  · exact upd_ne _ _ h

section cdf
variable {V M W : Type} [Add V] [AddCommGroup M] [Add W] [Zero V] [Zero W]

/-- ★ the cd-as-force generator with its hidden state: for EVERY request list (valid or not)
the cache invariant `i_last = i ∧ dmpfrc1 = bo · v[:, i_last]` holds and the visible arrays are
exactly those of the cache-free one-step machine `cdfLin` (one step of the batch routine
`_solve_real_unc_cdforces`), given additivity of the coefficient maps and
`bo (I − Bp alpha) = alpha`. -/
theorem cdf_cache_sound (c : CdfCoef V M W) (h : CdfAdditive c)
    (hα : ∀ y, c.bo (y - c.Bp (c.alpha y)) = c.alpha y)
    (f0 : V) (d0 v0 : M) (ops : List (Op V)) :
    CacheInv c (cdfRun c (cdfInit c f0 d0 v0) ops) ∧
      cdfAbs (cdfRun c (cdfInit c f0 d0 v0) ops) =
        run (cdfLin c) (init (cdfLin c) f0 ⟨d0, v0⟩) ops := by
  have hc : CacheInv c (cdfInit c f0 d0 v0) := ⟨rfl, by simp only [cdfInit, upd_same]⟩
  obtain ⟨h1, h2⟩ := abs_run c h hα ops _ hc
  refine ⟨h1, h2.trans ?_⟩
  congr 1
  simp only [cdfAbs, cdfInit, init, cdfLin, State.mk.injEq, true_and, and_true]
  funext j
  by_cases hj : j = 0
  · subst hj; simp only [upd_same]
  · simp only [upd_ne _ _ hj]; rfl

/-- ★ hence the cd-as-force generator equals batch on every valid history. -/
theorem cdf_eq_batch (c : CdfCoef V M W) (h : CdfAdditive c)
    (hα : ∀ y, c.bo (y - c.Bp (c.alpha y)) = c.alpha y)
    (f0 : V) (d0 v0 : M) (ops : List (Op V))
    (hv : Valid (cdfLin c) (init (cdfLin c) f0 ⟨d0, v0⟩) ops) :
    let s := cdfRun c (cdfInit c f0 d0 v0) ops
    ∀ j, j ≤ s.cur →
      (⟨s.d j, s.v j⟩ : DV M) = batch (cdfLin c) s.force ⟨d0, v0⟩ j ∧ s.r j = c.S (s.force j) := by
  intro s j hj
  obtain ⟨_, habs⟩ := cdf_cache_sound c h hα f0 d0 v0 ops
  obtain ⟨_, hb⟩ := visible_eq_batch (cdfLin c) (cdfLin_addOn c h) f0 ⟨d0, v0⟩ ops hv
  have hcur : s.cur = (run (cdfLin c) (init (cdfLin c) f0 ⟨d0, v0⟩) ops).cur :=
    congrArg State.cur habs
  have hx : ∀ j, (⟨s.d j, s.v j⟩ : DV M) = (run (cdfLin c) (init (cdfLin c) f0 ⟨d0, v0⟩) ops).x j :=
    fun j => congrFun (congrArg State.x habs) j
  have hf : s.force = (run (cdfLin c) (init (cdfLin c) f0 ⟨d0, v0⟩) ops).force :=
    congrArg State.force habs
  have hr : s.r = (run (cdfLin c) (init (cdfLin c) f0 ⟨d0, v0⟩) ops).r :=
    congrArg State.r habs
  obtain ⟨a, b⟩ := hb j (hcur ▸ hj)
  exact ⟨by rw [hx, hf]; exact a, by rw [hr, hf]; exact b⟩

end cdf

/-- the code computes `alpha` from `alpha (I + Bp bo) = bo`; with `I + Bp bo` invertible that
is the hypothesis of `cdf_cache_sound`. -/
theorem cdf_alpha_identity {R : Type} [Ring R] (alpha bo Bp : R) (hu : IsUnit (1 + Bp * bo))
    (ha : alpha * (1 + Bp * bo) = bo) : bo * (1 - Bp * alpha) = alpha :=
  alpha_identity alpha bo Bp hu ha

/-! ### non-vacuity -/

/-- a scalar machine over `ℤ` and a history with a jump-back, a repeat and add-ons after redo -/
def exL : Lin Int Int Int := { T := (2 * ·), P := (3 * ·), Q := (5 * ·), S := (7 * ·) }
def exOps : List (Op Int) :=
  [.send 1 1, .addon 2, .send 2 3, .send 1 4, .addon (-1), .send 1 6, .send 2 1, .send 3 2]

example : AddOnAdditive exL := ⟨fun a b => Int.mul_add 5 a b, fun a b => Int.mul_add 7 a b⟩
example : Valid exL (init exL 1 1) exOps := by
  simp [Valid, ValidOp, exOps, step, sendAt, addonAt, init]
example : InHorizon 4 exOps := by simp [InHorizon, exOps]
example : (run exL (init exL 1 1) exOps).cur = 4 - 1 := rfl

/-- hypotheses of `cdf_cache_sound` are inhabited: `Bp = 1`, `bo = -2`, `alpha = 2`
(`alpha (1 + Bp bo) = bo`) -/
def exC (o : Bool) : CdfCoef Int Int Int :=
  { F := (2 * ·), G := (3 * ·), A := (5 * ·), B := (7 * ·), Fp := (11 * ·), Gp := (13 * ·),
    Ap := (17 * ·), Bp := (1 * ·), alpha := (2 * ·), bo := ((-2) * ·), K := (1 * ·),
    S := (19 * ·), order1 := o }

example (o : Bool) : CdfAdditive (exC o) := by
  constructor <;> intro a b <;> simp only [exC] <;> exact Int.mul_add _ a b
example (o : Bool) : ∀ y, (exC o).bo (y - (exC o).Bp ((exC o).alpha y)) = (exC o).alpha y := by
  intro y; simp only [exC]; omega
example : IsUnit ((1 : Int) + 1 * (-2)) := ⟨⟨-1, -1, rfl, rfl⟩, rfl⟩

end PyYetiVerif.C08
