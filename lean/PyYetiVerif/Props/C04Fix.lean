import PyYetiVerif.Lemmas.Op4Fixed
import PyYetiVerif.Lemmas.Op4FixedFile
import PyYetiVerif.Lemmas.Op4FixedDomain
import PyYetiVerif.Lemmas.Op4FixedAscii
import PyYetiVerif.Lemmas.Op4FixedChainC
import PyYetiVerif.Props.C04
/-!
# C04 — the repair candidates for findings F2 and F3 (`…_fixed` theorems)

/repo is NOT patched: `Props/C04.lean` keeps describing the code that exists (with `pack_fits_i32` /
`nonbigmat_overflow_example` and `fmtE_width` / `ascii_overflow_example` as the boundaries of F2 / F3).  This file
states, next to those theorems, what the PATCHED writers do (model: `Model/Op4Fixed.lean`; patches:
`corpus/c04_F2_candidate_fix.diff`, `corpus/c04_F3_candidate_fix.diff`; tie of the patched text to the model:
`corpus/c04_F2_candidate_check.py`, `corpus/c04_F3_candidate_check.py` with the evidence files next to them) and
proves the property for them with the hypothesis / counterexample that encoded the defect dropped.
-/
namespace PyYetiVerif.C04
open PyYetiVerif.Op4 PyYetiVerif.Op4A PyYetiVerif.Generated.Op4Consts

/-! ## F2: `_split_strings` -/

/-- `_split_strings(ind, maxlen)` for `maxlen ≥ 1` and runs of positive length: the pieces stand for the same row
indices in the same order (so they partition every run, in order), every piece is non-empty and at most `maxlen` rows
long, and where no run is longer than `maxlen` the result *is* the input (nothing changes for files the present
writer can write). -/
theorem split_strings_spec (maxlen : Nat) (hm : 1 ≤ maxlen) (ind : List (Nat × Nat)) (hpos : ∀ p ∈ ind, 1 ≤ p.2) :
    expand (splitStrings maxlen ind) = expand ind ∧
      (∀ p ∈ splitStrings maxlen ind, 1 ≤ p.2 ∧ p.2 ≤ maxlen) ∧
      ((∀ p ∈ ind, p.2 ≤ maxlen) → splitStrings maxlen ind = ind) :=
  ⟨expand_splitStrings maxlen hm ind, splitStrings_bounds maxlen hm ind hpos, splitStrings_id maxlen ind⟩

/-- **F2 repaired** (`pack_fits_i32` without its boundary): for every column of fewer than 65536 rows (the domain of
the nonbigmat layout: `resolveLayout`), real or complex, every string header the patched writer packs fits
`struct.pack('i', …)` — the patched binary nonbigmat writer never raises `struct.error` on a string header. -/
theorem nonbigmat_never_overflows_fixed (cplx : Bool) (col : List Entry) (hrows : col.length < rows4bigmat) :
    stringsFitFx cplx col = true ∧
      ∀ s ∈ stringsFx cplx col, packIS (s.1 + 1) (s.2.length * 2 * mult cplx) < 2 ^ 31 := by
  have h := stringsFitFx_true cplx col hrows
  refine ⟨h, ?_⟩
  intro s hs
  unfold stringsFitFx at h
  rw [List.all_eq_true] at h
  have := h s hs
  simpa [fitsI32] using this

/-- the patched writer accepts every matrix of fewer than 65536 rows in the nonbigmat layout
(`nonbigmat_writes_iff` with the right-hand side always true) -/
theorem nonbigmat_writes_fixed (e : Endian) (m : Mat) (hlen : ∀ col ∈ m.cols, col.length = m.rows)
    (hrows : m.rows < rows4bigmat) : (encMatWordsFx e .nonbigmat m).isSome = true := by
  unfold encMatWordsFx
  have : m.cols.all (stringsFitFx m.cplx) = true := by
    rw [List.all_eq_true]
    intro col hcol
    exact stringsFitFx_true m.cplx col (by rw [hlen col hcol]; exact hrows)
  simp [this]

/-- **column_roundtrip_nonbigmat for the patched writer**: the strings of a column record — any string lengths,
16384 rows and more included — decode to the column -/
theorem column_roundtrip_nonbigmat_fixed (e : Endian) (cplx : Bool) (col : List Entry) (rest : List Nat)
    (hrows : col.length < rows4bigmat) :
    decodeColNonbig e cplx col.length (nwordsNonbig cplx (stringsFx cplx col))
        ((stringsFx cplx col).flatMap (nonbigStringWords e cplx) ++ rest)
      = some (canonCol cplx col, rest) := by
  unfold decodeColNonbig
  rw [rdStringsNonbig_enc e cplx _ rest (stringsFx_rows cplx col hrows) _ (strings_length_le cplx _).1]
  simp only [putsCol_stringsFx, Option.map_some]

/-- unchanged behaviour: a column whose strings the present writer can pack (all at most `16383 // multiplier` rows
long) is written by the patched writer with exactly the present strings -/
theorem nonbigmat_unchanged_fixed (cplx : Bool) (col : List Entry)
    (h : ∀ p ∈ colStats (nzIdx cplx col), p.2 ≤ maxStrRows cplx) :
    stringsFx cplx col = strings cplx col ∧
      ∀ e c, encColNonbigFx e cplx c col = encColNonbig e cplx c col := by
  have hs := stringsFx_eq_strings cplx col h
  refine ⟨hs, ?_⟩
  intro e c
  unfold encColNonbigFx encColNonbig
  rw [hs]
  cases strings cplx col <;> rfl

/-- **file_writes_iff for the patched writer**: it produces a file for EVERY list of matrices (columns of `rows`
entries; nonbigmat only below 65536 rows, where `write` uses it: `resolveLayout`) — the condition "every string fits
its packed header" of `file_writes_iff` is gone -/
theorem file_writes_fixed (e : Endian) (ms : List (Layout × Mat))
    (h : ∀ p ∈ ms, (∀ col ∈ p.2.cols, col.length = p.2.rows) ∧ (p.1 = .nonbigmat → p.2.rows < rows4bigmat)) :
    (encFileWordsFx e ms).isSome = true :=
  encFileWordsFx_isSome e ms h

/-- **file_roundtrip_binary for the patched writer.**  For every list of matrices (each with its resolved layout),
either byte order, under the hypotheses of `file_roundtrip_binary` (`Mat.Wf`; nonbigmat only below 65536 rows) the
patched writer DOES produce a word stream `ws` (no hypothesis `henc`: strings of 16384 rows and more are split), and the
unchanged reader `rdFile` decodes `ws` to one `Dec` per matrix, in file order, with `DecOf`: the written name field,
rows (negated for bigmat), columns, form, type, and puts that rebuild — by `applyPuts`, the dense read — the columns
`decCol` of the written matrix (`decCol_spec`: identical values up to the sign of zeros outside the written strings). -/
theorem file_roundtrip_binary_fixed (e : Endian) (ms : List (Layout × Mat))
    (hw : ∀ p ∈ ms, p.2.Wf ∧ (p.1 = .nonbigmat → p.2.rows < rows4bigmat)) :
    ∃ ws, encFileWordsFx e ms = some ws ∧ ∃ ds, rdFile e (ws.length + 1) ws = some ds ∧ DecsOf ms ds := by
  have hsome := encFileWordsFx_isSome e ms fun p hp => ⟨(hw p hp).1.cols_len, (hw p hp).2⟩
  cases henc : encFileWordsFx e ms with
  | none => rw [henc] at hsome; cases hsome
  | some ws =>
    exact ⟨ws, rfl, rdFile_encFx e ms ws (ws.length + 1) henc
      (by have := encFileWordsFx_length e ms ws henc; omega) hw⟩

/-- **write_domain for the patched writer**: the checked patched writer `writeFileWordsFx` succeeds only if every
dimension, `cols + 1`, `form` and every column record length `recLenFx` fit a signed 32-bit integer, and then it writes
what `encFileWordsFx` writes -/
theorem write_domain_fixed (e : Endian) (ms : List (Layout × Mat)) (ws : List Nat) (h : writeFileWordsFx e ms = .ok ws) :
    encFileWordsFx e ms = some ws ∧ ∀ p ∈ ms, p.2.rows < 2 ^ 31 ∧ p.2.cols.length + 1 < 2 ^ 31 ∧ p.2.form < 2 ^ 31 ∧
      ∀ col ∈ p.2.cols, recLenFx p.1 p.2.cplx col < 2 ^ 31 :=
  writeFileWordsFx_ok e ms ws h

/-- **file_roundtrip_binary_domain for the patched writer**: whenever the checked patched writer succeeds on matrices
whose columns have `rows` entries and whose name bytes are bytes (nonbigmat below 65536 rows), the reader decodes the
words to one `Dec` per matrix, in order, with `DecOfXFx`: `DecOf` (name field, shape, form, type, puts that rebuild
`decCol`), the column reader `layOf`, the `sparse=None` resolution `autoOf`, and the puts themselves — one per string
of the patched writer.  The success of the writer no longer depends on string lengths (`file_writes_fixed`). -/
theorem file_roundtrip_binary_domain_fixed (e : Endian) (ms : List (Layout × Mat)) (ws : List Nat)
    (hcols : ∀ p ∈ ms, (∀ col ∈ p.2.cols, col.length = p.2.rows) ∧ (∀ b ∈ p.2.name, b < 256) ∧
      (p.1 = .nonbigmat → p.2.rows < rows4bigmat))
    (hwr : writeFileWordsFx e ms = .ok ws) :
    ∃ ds, rdFile e (ws.length + 1) ws = some ds ∧ List.Forall₂ (DecOfXFx e) ms ds := by
  obtain ⟨henc, hdom⟩ := writeFileWordsFx_ok e ms ws hwr
  refine rdFile_encXFx e ms ws (ws.length + 1) henc (by have := encFileWordsFx_length e ms ws henc; omega) ?_
  intro p hp
  obtain ⟨h1, h2, h3, h4⟩ := hdom p hp
  exact ⟨⟨(hcols p hp).1, h1, h2, h3, (hcols p hp).2.1, h4⟩, (hcols p hp).2.2⟩

/-- **file_roundtrip_bytes_domain for the patched writer** — `op4.write(binary=True)` followed by
`op4.load(into='list', sparse=False)` at the level of BYTES: if the patched writer produces the byte string `bytes` for a
non-empty list of matrices on its true domain (`Mat.WfDBFx`: columns of `rows` entries, every packed integer below
`2^31`, a valid name of at most 8 characters, 64-bit patterns; nonbigmat below 65536 rows), the reader — format
detection, words from bytes, `_loadop4_binary`, `_check_name`, puts into zero matrices — returns exactly `canonFile ms`:
names, shapes, forms, types and the columns `decCol` (bit-identical values).  Strings of any length: for a nonbigmat
matrix below 65536 rows `encFileBytesFx` is never `none` because of a string header (`file_writes_fixed`). -/
theorem file_roundtrip_bytes_domain_fixed (e : Endian) (ms : List (Layout × Mat)) (bytes : List Nat) (hne : ms ≠ [])
    (hw : ∀ p ∈ ms, p.2.WfDBFx p.1 ∧ (p.1 = .nonbigmat → p.2.rows < rows4bigmat))
    (henc : encFileBytesFx e ms = some bytes) :
    decodeBytes bytes = some (canonFile ms) := by
  unfold encFileBytesFx at henc
  cases hws : encFileWordsFx e ms with
  | none => rw [hws] at henc; cases henc
  | some ws =>
    rw [hws] at henc
    simp only [Option.map_some, Option.some.injEq] at henc
    subst henc
    have hlt := encFileWordsFx_lt32' e ms ws (fun p hp => (hw p hp).1) hws
    obtain ⟨ds, hds, hdecs⟩ := rdFile_encXFx e ms ws (ws.length + 1) hws
      (by have := encFileWordsFx_length e ms ws hws; omega) (fun p hp => ⟨(hw p hp).1.wf, (hw p hp).2⟩)
    obtain ⟨ws', hws'⟩ : ∃ ws', ws = 24 :: ws' := by
      cases ms with
      | nil => exact absurd rfl hne
      | cons p t =>
        obtain ⟨lay, m⟩ := p
        simp only [encFileWordsFx] at hws
        cases ha : encMatWordsFx e lay m with
        | none => simp [ha] at hws
        | some a =>
          cases hb : encFileWordsFx e t with
          | none => simp [ha, hb] at hws
          | some b =>
            simp only [ha, hb, Option.bind_eq_bind, Option.bind_some, Option.some.injEq] at hws
            rw [← hws, encMatWordsFx_eq e lay m a ha]
            simp only [headerWords, hdrReclen, List.cons_append, List.append_assoc]
            exact ⟨_, rfl⟩
    unfold decodeBytes
    rw [hws', decodeFormat_enc e ws', ← hws']
    simp only [wordsOfBytes_bytesOfWords e ws hlt, hds]
    exact toRMats_decs ms ds 0 (decsOf_of_XFx e ms ds hdecs) fun p hp => ⟨(hw p hp).1.name_ident, (hw p hp).1.name_len⟩

/-- non-vacuity of `file_roundtrip_binary_domain_fixed`: the checked patched writer accepts a two-string column -/
example :
    let m : Mat := { name := [97], form := 2, cplx := false, rows := 4, cols := [[(1, 0), (0, 0), (2, 0), (3, 0)]] }
    (writeFileWordsFx .little [(.nonbigmat, m)]).toOption = (writeFileWords .little [(.nonbigmat, m)]).toOption ∧
      (writeFileWordsFx .little [(.nonbigmat, m)]).toOption.isSome = true := by
  decide

/-- non-vacuity of `file_roundtrip_binary_fixed`: a two-matrix file with a nonbigmat member -/
example :
    let m1 : Mat := { name := [97], form := 2, cplx := false, rows := 3,
                      cols := [[(0, 0), (1, 0), (2, 0)], [(0, 0), (0, 0), (0, 0)]] }
    let m2 : Mat := { name := [98, 50], form := 1, cplx := true, rows := 1, cols := [[(5, 6)]] }
    encFileWordsFx .big [(.nonbigmat, m1), (.bigmat, m2)] = encFileWords .big [(.nonbigmat, m1), (.bigmat, m2)] ∧
      (encFileWordsFx .big [(.nonbigmat, m1), (.bigmat, m2)]).isSome = true := by
  decide

/-- non-vacuity, F2: the 16384-row real string of `nonbigmat_overflow_example` is written as strings of 16383 and 1
rows whose headers fit; a 20000-row complex string as 8191 + 8191 + 3618 -/
example :
    splitStrings (maxStrRows false) [(0, 16384)] = [(0, 16383), (16383, 1)] ∧
      fitsI32 (packIS 1 (16383 * 2 * mult false)) = true ∧ fitsI32 (packIS 16384 (1 * 2 * mult false)) = true ∧
      splitStrings (maxStrRows true) [(3, 20000), (30000, 2)] = [(3, 8191), (8194, 8191), (16385, 3618), (30000, 2)] ∧
      splitStrings 3 [(0, 2), (5, 3)] = [(0, 2), (5, 3)] ∧ splitStrings 3 [(0, 7)] = [(0, 3), (3, 3), (6, 1)] := by
  decide

/-! ## F3: every value in its field -/

/-- **F3 repaired** (`fmtE_width` without its exception): `numform(x)` of the patched `_write_ascii_header` is
exactly `digits + 7` characters wide for EVERY finite double — also a negative one with a three-digit exponent — and
for a value that fitted before (`Fits`) it is the present text `fmtE`. -/
theorem fmtE_width_fixed (d b : Nat) (hd : 1 ≤ d) :
    (fmtEFx d b).length = d + 7 ∧ (Fits d b → fmtEFx d b = fmtE d b) := by
  refine ⟨?_, fmtEFx_of_fits d b hd⟩
  rw [fmtEFx_length d b hd]
  unfold numlen numlenBase expdigits; omega

/-- the width hypothesis of `ascii_slicing` holds unconditionally for the patched writer (`fits_iff_width` without
`Fits`) -/
theorem width_fixed (d b : Nat) (hd : 1 ≤ d) : (fmtEFx d b).length = numlen d := fmtEFx_length d b hd

/-- **field_roundtrip for the patched writer**: `float(numform(x))` is the printed decimal `decOfFx d b` — the decimal
with `d` digits after the point, with `d - 1` digits for a negative value with a three-digit exponent (`Wide`) -/
theorem field_roundtrip_fixed (d b : Nat) (hd : 1 ≤ d) :
    pyFloat? (fmtEFx d b) = some (decOfFx d b) ∧
      (Wide d b = false → decOfFx d b = decOf d b) ∧ (Wide d b = true → decOfFx d b = decOf (d - 1) b) := by
  refine ⟨pyFloat_fmtEFx d b hd, ?_, ?_⟩ <;> intro h <;> simp [decOfFx, h]

/-- **to the requested number of digits, patched writer**: the decimal read back differs from the exact value of the
double by at most half a unit of the last printed digit — the `d`-th after the point, and the `(d-1)`-th for a
negative value with a three-digit exponent (the one digit the repair gives up for such a value) -/
theorem ascii_value_half_unit_fixed (d b : Nat) :
    (Wide d b = false → |Dec10.toRat (decOfFx d b) - bitsVal b| ≤ 1 / 2 * (10 : ℚ) ^ ((sci d b).e10 - (d : Int))) ∧
    (Wide d b = true →
      |Dec10.toRat (decOfFx d b) - bitsVal b| ≤ 1 / 2 * (10 : ℚ) ^ ((sci (d - 1) b).e10 - ((d - 1 : Nat) : Int))) :=
  decOfFx_err d b

/-- **ascii_column_roundtrip_dense for the patched writer**: the values of a dense record or of a string (any segment,
real or complex, ANY finite doubles — the hypothesis `Fits` of `ascii_column_roundtrip_dense` is gone) come back as
the printed decimals, in order, and exactly the value lines are consumed -/
theorem ascii_values_roundtrip_fixed (g : Cfg) (d : Nat) (cplx : Bool) (hg : GoodCfg g d cplx) (hd : 1 ≤ d)
    (hp : 1 ≤ perline d) (seg : List Entry) (rest : List (List Char)) :
    ∃ blk, getBlock g (segDs cplx seg).length (valLinesFx d (segDs cplx seg) ++ rest) = (blk, rest) ∧
      readVals g blk (segDs cplx seg).length = some (seg.map (aEntryFx d cplx)) :=
  readVals_valLinesFx g d cplx hg hd hp seg rest

/-- **file_roundtrip_ascii for the patched writer.**  For every non-empty list of matrices (each with its resolved
layout) written with `d` digits, `1 ≤ d ≤ 73`, holding ANY finite doubles: `op4.load` on the text the patched writer
produces (`loadAscii`, the unchanged reader model) returns exactly one `ADec` per matrix, in file order, carrying the
written name field, rows (negated for bigmat), columns, form, type, the announced `perline`/`numlen`, and puts that
rebuild (`applyPutsA`) a matrix related entry by entry (`Op4AFx.ReadOf`, see `ascii_entry_spec_fixed`) to the columns
`decCol`.  Hypotheses: those of `file_roundtrip_ascii` (`WfA`: columns of `rows` entries, sizes that fit the
8-character fields, a valid name; nonbigmat only below 65536 rows) WITHOUT "every written value fits its field" — the
condition of finding F3 is gone.  (The proof is the chain of `file_roundtrip_ascii` re-checked with the three facts
about the formatter replaced by `fmtEFx_length` / `pyFloat_fmtEFx` / `fmtEFx_fieldChar`: Lemmas/Op4FixedChain{A,B,C}.) -/
theorem file_roundtrip_ascii_fixed (d : Nat) (hd : 1 ≤ d) (hd' : d ≤ 73) (ms : List (Layout × Mat)) (hne : ms ≠ [])
    (hok : ∀ p ∈ ms, WfA p.2 ∧ (p.1 = .nonbigmat → p.2.rows < rows4bigmat)) :
    ∃ ds, loadAscii (encFileAsciiFx d ms) = some ds ∧ List.Forall₂ (Op4AFx.ADecOf d) ms ds := by
  have hp : 1 ≤ perline d := by
    unfold perline numlen numlenBase expdigits lineWidth
    exact (Nat.le_div_iff_mul_le (by omega)).2 (by omega)
  exact Op4AFx.loadAscii_enc d hd hp ms hne fun p hp' =>
    ⟨⟨(hok p hp').1.cols_len, (hok p hp').1.rows_lt, (hok p hp').1.ncols_lt, (hok p hp').1.form_lt,
      (hok p hp').1.name_ident, (hok p hp').1.name_len⟩, (hok p hp').2, fun _ _ _ _ _ _ => trivial⟩

/-- the printed zero, patched writer -/
theorem decOfFx_zero (d b : Nat) (h : isZeroD b = true) : (decOfFx d b).man = 0 := by
  unfold decOfFx
  split
  · exact decOf_zero (d - 1) b h
  · exact decOf_zero d b h

/-- what `Op4AFx.ReadOf` means entry by entry (`ascii_entry_spec` for the patched writer): a non-zero written element
`x` reads back as exactly the printed decimal(s) `Op4AFx.aEntry d cplx x = (decOfFx d re, decOfFx d im)` — see
`field_roundtrip_fixed` / `ascii_value_half_unit_fixed` for what `decOfFx` is — and a zero element as zero -/
theorem ascii_entry_spec_fixed (d : Nat) (lay : Layout) (cplx : Bool) (col : List Entry) (colA : List AEntry)
    (h : List.Forall₂ (Op4AFx.ReadOf d cplx) (decCol lay cplx col) colA) (i : Nat) (x : Entry) (hx : col[i]? = some x) :
    ∃ y : AEntry, colA[i]? = some y ∧
      (x.isZero cplx = false → y = (decOfFx d x.1, if cplx then decOfFx d x.2 else Dec10.zero)) ∧
      (x.isZero cplx = true → y.1.man = 0 ∧ y.2.man = 0) := by
  obtain ⟨yb, hyb, hnz, hz⟩ := decCol_entry lay cplx col i x hx
  obtain ⟨y, hy, hrel⟩ := forall₂_getElem? h i yb hyb
  refine ⟨y, hy, ?_, ?_⟩
  · intro hxz
    have hyb' := hnz hxz
    rcases hrel with hr | ⟨hr, _⟩
    · rw [hr, hyb', Op4AFx.aEntry_normE]; rfl
    · exfalso
      have : (normE cplx x).isZero cplx = true := by rw [← hyb', hr]; exact isZero_zero cplx
      rw [isZero_normE] at this
      rw [hxz] at this; cases this
  · intro hxz
    have hzz := hz hxz
    rcases hrel with hr | ⟨_, hr⟩
    · rw [hr]
      unfold Op4AFx.aEntry
      cases cplx
      · simp only [Entry.isZero, Bool.false_eq_true, if_false] at hzz
        exact ⟨decOfFx_zero d _ hzz, rfl⟩
      · simp only [Entry.isZero, if_true, Bool.and_eq_true] at hzz
        exact ⟨decOfFx_zero d _ hzz.1, decOfFx_zero d _ hzz.2⟩
    · rw [hr]; exact ⟨rfl, rfl⟩

/-- non-vacuity of `file_roundtrip_ascii_fixed`: the matrix of finding F3 (`[[-2.5e-120, 1.0]]`) satisfies the
hypotheses, and its first value is one the present writer cannot write -/
example :
    let m : Mat := { name := [97], form := 2, cplx := false, rows := 1,
                     cols := [[(0xA719D28F47B4D525, 0)], [(0x3FF0000000000000, 0)]] }
    isIdent m.name = true ∧ Wide 16 0xA719D28F47B4D525 = true ∧ (sci 16 0xA719D28F47B4D525).e10 = -120 := by
  decide +kernel

/-- non-vacuity, F3: `-2.5e-120` (`ascii_overflow_example`) is `Wide` with 16 digits, and is printed with 15 -/
example :
    Wide 16 0xA719D28F47B4D525 = true ∧ Wide 16 0x2719D28F47B4D525 = false ∧
      (fmtEFx 3 0xA719D28F47B4D525).length = 10 ∧ fmtEFx 3 0xA719D28F47B4D525 = " -2.50E-120".toList.drop 1 ∧
      decOfFx 3 0xA719D28F47B4D525 = { neg := true, man := 250, exp := -122 } := by
  decide +kernel

end PyYetiVerif.C04
