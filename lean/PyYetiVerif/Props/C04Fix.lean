import PyYetiVerif.Lemmas.Op4Fixed
import PyYetiVerif.Lemmas.Op4FixedFile
import PyYetiVerif.Lemmas.Op4FixedDomain
import PyYetiVerif.Props.C04
/-!
# C04 — the binary nonbigmat writer with `_split_strings` (finding F2, repaired in /repo by 27f7d6b)

The writer that exists is `encMatWordsFx` / `encFileWordsFx` / `writeFileWordsFx` (Model/Op4Fixed.lean): the binary
nonbigmat layout passes the runs of `_sparse_col_stats` through `OP4._split_strings(ind, 16383 // multiplier)`, so every
packed string header fits `struct.pack('i', …)`.  The theorems of this file are the whole-file statements for it (words,
true domain, bytes): no hypothesis on string lengths.  `encMatWords` of Model/Op4.lean is the encoder WITHOUT the split —
`writer_eq_unsplit` / `file_writer_eq_unsplit`: the writer is that encoder whenever no string is longer than
`16383 // multiplier` rows — and the theorems of Props/C04.lean that are stated for `encMatWords` (sparse inputs, COO view,
argument normalisation, `sparse=None` rule) hold for the writer on that sub-domain through this identity.
The ASCII half (finding F3, fix 7ee1407) is swapped in place: `fmtE` of Model/Op4.lean is `numform(value)`.
-/
namespace PyYetiVerif.C04
open PyYetiVerif.Op4 PyYetiVerif.Op4A PyYetiVerif.Generated.Op4Consts

/-! ## F2: `_split_strings` -/

/-- `_split_strings(ind, maxlen)` for `maxlen ≥ 1` and runs of positive length: the pieces stand for the same row
indices in the same order (so they partition every run, in order), every piece is non-empty and at most `maxlen` rows
long, and where no run is longer than `maxlen` the result *is* the input (nothing changes for files the present
writer can write). -/
theorem split_strings_spec (maxlen : Nat) (hm : 1 ≤ maxlen) (ind : List (Nat × Nat)) (hpos : ∀ p ∈ ind, 1 ≤ p.2) :
    expand (splitStrings maxlen ind) = expand ind ∧
      (∀ p ∈ splitStrings maxlen ind, 1 ≤ p.2 ∧ p.2 ≤ maxlen) ∧
      ((∀ p ∈ ind, p.2 ≤ maxlen) → splitStrings maxlen ind = ind) :=
  ⟨expand_splitStrings maxlen hm ind, splitStrings_bounds maxlen hm ind hpos, splitStrings_id maxlen ind⟩

/-- **F2 repaired** (`pack_fits_i32` without its boundary): for every column of fewer than 65536 rows (the domain of
the nonbigmat layout: `resolveLayout`), real or complex, every string header the patched writer packs fits
`struct.pack('i', …)` — the patched binary nonbigmat writer never raises `struct.error` on a string header. -/
theorem nonbigmat_never_overflows_fixed (cplx : Bool) (col : List Entry) (hrows : col.length < rows4bigmat) :
    stringsFitFx cplx col = true ∧
      ∀ s ∈ stringsFx cplx col, packIS (s.1 + 1) (s.2.length * 2 * mult cplx) < 2 ^ 31 := by
  have h := stringsFitFx_true cplx col hrows
  refine ⟨h, ?_⟩
  intro s hs
  unfold stringsFitFx at h
  rw [List.all_eq_true] at h
  have := h s hs
  simpa [fitsI32] using this

/-- the patched writer accepts every matrix of fewer than 65536 rows in the nonbigmat layout
(`nonbigmat_writes_iff` with the right-hand side always true) -/
theorem nonbigmat_writes_fixed (e : Endian) (m : Mat) (hlen : ∀ col ∈ m.cols, col.length = m.rows)
    (hrows : m.rows < rows4bigmat) : (encMatWordsFx e .nonbigmat m).isSome = true := by
  unfold encMatWordsFx
  have : m.cols.all (stringsFitFx m.cplx) = true := by
    rw [List.all_eq_true]
    intro col hcol
    exact stringsFitFx_true m.cplx col (by rw [hlen col hcol]; exact hrows)
  simp [this]

/-- **column_roundtrip_nonbigmat for the patched writer**: the strings of a column record — any string lengths,
16384 rows and more included — decode to the column -/
theorem column_roundtrip_nonbigmat_fixed (e : Endian) (cplx : Bool) (col : List Entry) (rest : List Nat)
    (hrows : col.length < rows4bigmat) :
    decodeColNonbig e cplx col.length (nwordsNonbig cplx (stringsFx cplx col))
        ((stringsFx cplx col).flatMap (nonbigStringWords e cplx) ++ rest)
      = some (canonCol cplx col, rest) := by
  unfold decodeColNonbig
  rw [rdStringsNonbig_enc e cplx _ rest (stringsFx_rows cplx col hrows) _ (strings_length_le cplx _).1]
  simp only [putsCol_stringsFx, Option.map_some]

/-- unchanged behaviour: a column whose strings the present writer can pack (all at most `16383 // multiplier` rows
long) is written by the patched writer with exactly the present strings -/
theorem nonbigmat_unchanged_fixed (cplx : Bool) (col : List Entry)
    (h : ∀ p ∈ colStats (nzIdx cplx col), p.2 ≤ maxStrRows cplx) :
    stringsFx cplx col = strings cplx col ∧
      ∀ e c, encColNonbigFx e cplx c col = encColNonbig e cplx c col := by
  have hs := stringsFx_eq_strings cplx col h
  refine ⟨hs, ?_⟩
  intro e c
  unfold encColNonbigFx encColNonbig
  rw [hs]
  cases strings cplx col <;> rfl

/-- **file_writes_iff for the patched writer**: it produces a file for EVERY list of matrices (columns of `rows`
entries; nonbigmat only below 65536 rows, where `write` uses it: `resolveLayout`) — the condition "every string fits
its packed header" of `file_writes_iff` is gone -/
theorem file_writes_fixed (e : Endian) (ms : List (Layout × Mat))
    (h : ∀ p ∈ ms, (∀ col ∈ p.2.cols, col.length = p.2.rows) ∧ (p.1 = .nonbigmat → p.2.rows < rows4bigmat)) :
    (encFileWordsFx e ms).isSome = true :=
  encFileWordsFx_isSome e ms h

/-- **file_roundtrip_binary for the patched writer.**  For every list of matrices (each with its resolved layout),
either byte order, under the hypotheses of `file_roundtrip_binary` (`Mat.Wf`; nonbigmat only below 65536 rows) the
patched writer DOES produce a word stream `ws` (no hypothesis `henc`: strings of 16384 rows and more are split), and the
unchanged reader `rdFile` decodes `ws` to one `Dec` per matrix, in file order, with `DecOf`: the written name field,
rows (negated for bigmat), columns, form, type, and puts that rebuild — by `applyPuts`, the dense read — the columns
`decCol` of the written matrix (`decCol_spec`: identical values up to the sign of zeros outside the written strings). -/
theorem file_roundtrip_binary_fixed (e : Endian) (ms : List (Layout × Mat))
    (hw : ∀ p ∈ ms, p.2.Wf ∧ (p.1 = .nonbigmat → p.2.rows < rows4bigmat)) :
    ∃ ws, encFileWordsFx e ms = some ws ∧ ∃ ds, rdFile e (ws.length + 1) ws = some ds ∧ DecsOf ms ds := by
  have hsome := encFileWordsFx_isSome e ms fun p hp => ⟨(hw p hp).1.cols_len, (hw p hp).2⟩
  cases henc : encFileWordsFx e ms with
  | none => rw [henc] at hsome; cases hsome
  | some ws =>
    exact ⟨ws, rfl, rdFile_encFx e ms ws (ws.length + 1) henc
      (by have := encFileWordsFx_length e ms ws henc; omega) hw⟩

/-- **write_domain for the patched writer**: the checked patched writer `writeFileWordsFx` succeeds only if every
dimension, `cols + 1`, `form` and every column record length `recLenFx` fit a signed 32-bit integer, and then it writes
what `encFileWordsFx` writes -/
theorem write_domain_fixed (e : Endian) (ms : List (Layout × Mat)) (ws : List Nat) (h : writeFileWordsFx e ms = .ok ws) :
    encFileWordsFx e ms = some ws ∧ ∀ p ∈ ms, p.2.rows < 2 ^ 31 ∧ p.2.cols.length + 1 < 2 ^ 31 ∧ p.2.form < 2 ^ 31 ∧
      ∀ col ∈ p.2.cols, recLenFx p.1 p.2.cplx col < 2 ^ 31 :=
  writeFileWordsFx_ok e ms ws h

/-- **file_roundtrip_binary_domain for the patched writer**: whenever the checked patched writer succeeds on matrices
whose columns have `rows` entries and whose name bytes are bytes (nonbigmat below 65536 rows), the reader decodes the
words to one `Dec` per matrix, in order, with `DecOfXFx`: `DecOf` (name field, shape, form, type, puts that rebuild
`decCol`), the column reader `layOf`, the `sparse=None` resolution `autoOf`, and the puts themselves — one per string
of the patched writer.  The success of the writer no longer depends on string lengths (`file_writes_fixed`). -/
theorem file_roundtrip_binary_domain_fixed (e : Endian) (ms : List (Layout × Mat)) (ws : List Nat)
    (hcols : ∀ p ∈ ms, (∀ col ∈ p.2.cols, col.length = p.2.rows) ∧ (∀ b ∈ p.2.name, b < 256) ∧
      (p.1 = .nonbigmat → p.2.rows < rows4bigmat))
    (hwr : writeFileWordsFx e ms = .ok ws) :
    ∃ ds, rdFile e (ws.length + 1) ws = some ds ∧ List.Forall₂ (DecOfXFx e) ms ds := by
  obtain ⟨henc, hdom⟩ := writeFileWordsFx_ok e ms ws hwr
  refine rdFile_encXFx e ms ws (ws.length + 1) henc (by have := encFileWordsFx_length e ms ws henc; omega) ?_
  intro p hp
  obtain ⟨h1, h2, h3, h4⟩ := hdom p hp
  exact ⟨⟨(hcols p hp).1, h1, h2, h3, (hcols p hp).2.1, h4⟩, (hcols p hp).2.2⟩

/-- **file_roundtrip_bytes_domain for the patched writer** — `op4.write(binary=True)` followed by
`op4.load(into='list', sparse=False)` at the level of BYTES: if the patched writer produces the byte string `bytes` for a
non-empty list of matrices on its true domain (`Mat.WfDBFx`: columns of `rows` entries, every packed integer below
`2^31`, a valid name of at most 8 characters, 64-bit patterns; nonbigmat below 65536 rows), the reader — format
detection, words from bytes, `_loadop4_binary`, `_check_name`, puts into zero matrices — returns exactly `canonFile ms`:
names, shapes, forms, types and the columns `decCol` (bit-identical values).  Strings of any length: for a nonbigmat
matrix below 65536 rows `encFileBytesFx` is never `none` because of a string header (`file_writes_fixed`). -/
theorem file_roundtrip_bytes_domain_fixed (e : Endian) (ms : List (Layout × Mat)) (bytes : List Nat) (hne : ms ≠ [])
    (hw : ∀ p ∈ ms, p.2.WfDBFx p.1 ∧ (p.1 = .nonbigmat → p.2.rows < rows4bigmat))
    (henc : encFileBytesFx e ms = some bytes) :
    decodeBytes bytes = some (canonFile ms) := by
  unfold encFileBytesFx at henc
  cases hws : encFileWordsFx e ms with
  | none => rw [hws] at henc; cases henc
  | some ws =>
    rw [hws] at henc
    simp only [Option.map_some, Option.some.injEq] at henc
    subst henc
    have hlt := encFileWordsFx_lt32' e ms ws (fun p hp => (hw p hp).1) hws
    obtain ⟨ds, hds, hdecs⟩ := rdFile_encXFx e ms ws (ws.length + 1) hws
      (by have := encFileWordsFx_length e ms ws hws; omega) (fun p hp => ⟨(hw p hp).1.wf, (hw p hp).2⟩)
    obtain ⟨ws', hws'⟩ : ∃ ws', ws = 24 :: ws' := by
      cases ms with
      | nil => exact absurd rfl hne
      | cons p t =>
        obtain ⟨lay, m⟩ := p
        simp only [encFileWordsFx] at hws
        cases ha : encMatWordsFx e lay m with
        | none => simp [ha] at hws
        | some a =>
          cases hb : encFileWordsFx e t with
          | none => simp [ha, hb] at hws
          | some b =>
            simp only [ha, hb, Option.bind_eq_bind, Option.bind_some, Option.some.injEq] at hws
            rw [← hws, encMatWordsFx_eq e lay m a ha]
            simp only [headerWords, hdrReclen, List.cons_append, List.append_assoc]
            exact ⟨_, rfl⟩
    unfold decodeBytes
    rw [hws', decodeFormat_enc e ws', ← hws']
    simp only [wordsOfBytes_bytesOfWords e ws hlt, hds]
    exact toRMats_decs ms ds 0 (decsOf_of_XFx e ms ds hdecs) fun p hp => ⟨(hw p hp).1.name_ident, (hw p hp).1.name_len⟩

/-- non-vacuity of `file_roundtrip_binary_domain_fixed`: the checked patched writer accepts a two-string column -/
example :
    let m : Mat := { name := [97], form := 2, cplx := false, rows := 4, cols := [[(1, 0), (0, 0), (2, 0), (3, 0)]] }
    (writeFileWordsFx .little [(.nonbigmat, m)]).toOption = (writeFileWords .little [(.nonbigmat, m)]).toOption ∧
      (writeFileWordsFx .little [(.nonbigmat, m)]).toOption.isSome = true := by
  decide

/-- non-vacuity of `file_roundtrip_binary_fixed`: a two-matrix file with a nonbigmat member -/
example :
    let m1 : Mat := { name := [97], form := 2, cplx := false, rows := 3,
                      cols := [[(0, 0), (1, 0), (2, 0)], [(0, 0), (0, 0), (0, 0)]] }
    let m2 : Mat := { name := [98, 50], form := 1, cplx := true, rows := 1, cols := [[(5, 6)]] }
    encFileWordsFx .big [(.nonbigmat, m1), (.bigmat, m2)] = encFileWords .big [(.nonbigmat, m1), (.bigmat, m2)] ∧
      (encFileWordsFx .big [(.nonbigmat, m1), (.bigmat, m2)]).isSome = true := by
  decide

theorem encCols_congr_mem (f g : Nat → List Entry → List Nat) :
    ∀ (cols : List (List Entry)) (c : Nat), (∀ col ∈ cols, ∀ c, f c col = g c col) → encCols f c cols = encCols g c cols := by
  intro cols
  induction cols with
  | nil => intro c _; rfl
  | cons col t ih =>
    intro c h
    simp only [encCols]
    rw [h col List.mem_cons_self c, ih (c + 1) fun x hx => h x (List.mem_cons_of_mem _ hx)]

theorem all_congr_mem {α} (p q : α → Bool) : ∀ (l : List α), (∀ x ∈ l, p x = q x) → l.all p = l.all q := by
  intro l
  induction l with
  | nil => intro _; rfl
  | cons a t ih =>
    intro h
    simp only [List.all_cons]
    rw [h a List.mem_cons_self, ih fun x hx => h x (List.mem_cons_of_mem _ hx)]

/-- **the writer is the unsplit encoder where no string is long**: if no run of non-zero rows of the matrix is longer
than `16383 // multiplier`, the words the writer produces are those of `encMatWords` (the encoder the theorems of
Props/C04.lean are stated for), in every layout -/
theorem writer_eq_unsplit (e : Endian) (lay : Layout) (m : Mat)
    (h : ∀ col ∈ m.cols, ∀ p ∈ colStats (nzIdx m.cplx col), p.2 ≤ maxStrRows m.cplx) :
    encMatWordsFx e lay m = encMatWords e lay m := by
  cases lay
  · rfl
  · rfl
  · have hs : ∀ col ∈ m.cols, stringsFx m.cplx col = strings m.cplx col :=
      fun col hc => stringsFx_eq_strings m.cplx col (h col hc)
    have h1 : m.cols.all (stringsFitFx m.cplx) = m.cols.all (stringsFit m.cplx) :=
      all_congr_mem _ _ m.cols fun col hc => by unfold stringsFitFx stringsFit; rw [hs col hc]
    have h2 : encCols (encColNonbigFx e m.cplx) 0 m.cols = encCols (encColNonbig e m.cplx) 0 m.cols :=
      encCols_congr_mem _ _ m.cols 0 fun col hc c => (nonbigmat_unchanged_fixed m.cplx col (h col hc)).2 e c
    simp only [encMatWordsFx, encMatWords, h1, h2]

theorem file_writer_eq_unsplit (e : Endian) :
    ∀ (ms : List (Layout × Mat)),
      (∀ q ∈ ms, ∀ col ∈ q.2.cols, ∀ p ∈ colStats (nzIdx q.2.cplx col), p.2 ≤ maxStrRows q.2.cplx) →
      encFileWordsFx e ms = encFileWords e ms := by
  intro ms
  induction ms with
  | nil => intro _; rfl
  | cons q t ih =>
    intro h
    obtain ⟨lay, m⟩ := q
    simp only [encFileWordsFx, encFileWords]
    rw [writer_eq_unsplit e lay m (h (lay, m) List.mem_cons_self), ih fun x hx => h x (List.mem_cons_of_mem _ hx)]

/-- non-vacuity, F2: the 16384-row real string of `nonbigmat_overflow_example` is written as strings of 16383 and 1
rows whose headers fit; a 20000-row complex string as 8191 + 8191 + 3618 -/
example :
    splitStrings (maxStrRows false) [(0, 16384)] = [(0, 16383), (16383, 1)] ∧
      fitsI32 (packIS 1 (16383 * 2 * mult false)) = true ∧ fitsI32 (packIS 16384 (1 * 2 * mult false)) = true ∧
      splitStrings (maxStrRows true) [(3, 20000), (30000, 2)] = [(3, 8191), (8194, 8191), (16385, 3618), (30000, 2)] ∧
      splitStrings 3 [(0, 2), (5, 3)] = [(0, 2), (5, 3)] ∧ splitStrings 3 [(0, 7)] = [(0, 3), (3, 3), (6, 1)] := by
  decide

end PyYetiVerif.C04
