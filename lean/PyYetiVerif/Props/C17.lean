import PyYetiVerif.Lemmas.Newmark
/-!
# C17 — approximate solvers follow their documented recurrences and converge

Property theorems only (helpers live in `Lemmas/Newmark.lean`).  The models
`PyYetiVerif.Newmark.run` (one polymorphic transcription of `SolveNewmark.tsolve`) and
`PyYetiVerif.Cdf.cdfRun` (`_solve_real_unc_cdforces`) are tied to pyyeti/ode by the numeric
correspondence check (harness/props/c17.py), which runs the same definitions at `Float`.

* `newmark_is_documented`, `newmark_central_differences`: over ANY module `V` over a field (scalar,
  diagonal and full-matrix systems alike) the history the model returns satisfies the documented
  equations term by term — start-up with `u₋₁ = u₀ − h v₀`, `F₋₁ = K u₋₁ + B v₀`, replaced
  `F₀ = K u₀ + B v₀`; three-point recurrence with the 1/3 force average and the nonlinear term;
  extra step with the linearly extrapolated force; central differences — provided `solve` inverts
  `A` and the precomputed operators / pre-multiplied nonlinear term are `A⁻¹` applied to `A1`, `A0`,
  `N` (the specification assumed for `lu_factor/lu_solve`, measured by the correspondence).
* `newmark_consistent`: the scalar scheme is exact on solutions polynomial of degree ≤ 2 in `t` with the
  matching force (second-order consistency); `newmark_startup_defect`: the documented start-up is NOT
  exact on them: `A (d₁ − u(h)) = (u''(0)/2)(b h/6 − m/3)`, and (`newmark_startup_exact_iff`) it is exact iff
  `F(0) = K u₀ + B v₀` — the documented order drop (two → one), stated.
* `newmark_stable_scalar`: for `m ≥ 0`, `b, k, h > 0` both roots of `A z² − A1 z − A0` lie strictly inside
  the unit disc (Schur–Cohn conditions), any step size, massless included; `massless_ok`: `A > 0` at `m = 0`.
* `cdf_is_documented`: one pass of the alpha recurrence satisfies the implicit equations (1), (2) of the
  `SolveCDF` docstring and keeps `Q = C_od q̇`; `cdf_diag_eq_unc`: with zero off-diagonal damping the
  whole history is `SolveUnc`'s.

Continued in `Props/C17Conv.lean` (global convergence of the scalar scheme: `newmark_converges_scalar`),
`Props/C17Stab.lean` (energy-method stability for scalar and FULL matrices, modal reduction, massless rows) and
`Props/C17Cdf.lean` (`alpha`, and the cd-as-force step as `SolveUnc`'s step for the interpolated damping force).
Still not proved (measured by the step-halving correspondence / oracle): convergence for coupled matrices, of the
velocities / accelerations, with nonlinear terms, and of SolveCDF to the coupled solution.  Floating-point
round-off is outside these statements.
-/
namespace PyYetiVerif.C17
open PyYetiVerif.Newmark PyYetiVerif.Cdf

/-! ## the model's history is the documented one (any module) -/
section documented
variable {α V : Type} [Field α] [CharZero α] [AddCommGroup V] [Module α V]
attribute [local instance] moduleVecOps

/-- For every force history with at least two columns `F0 :: F1 :: rest` the model returns a history `hh`
whose first displacement is `d0`, and the list `De, d_{nt-1}, …, d_0, u₋₁` together with the forces
`Fe = 2 F_{nt-1} − F_{nt-2}, F_{nt-1}, …, F_1, F_0' = K d0 + B v0, F₋₁ = K u₋₁ + B v0` satisfies the documented
three-point equation at every position (`Documented`), in particular at the first (start-up) and the
last (extrapolated) one. -/
theorem newmark_is_documented (S : Sys V α) (nl N : Nat → List V → V) (A : V →ₗ[α] V) (A1 A0 : V → V)
    (hsolve : ∀ x, A (S.solve x) = x) (hA1 : ∀ x, A (S.A1 x) = A1 x) (hA0 : ∀ x, A (S.A0 x) = A0 x)
    (hnl : ∀ j hs, A (nl j hs) = N j hs) (F0 F1 : V) (rest : List V) (d0 v0 : V) :
    ∃ (hh : Hist V) (Y : List V) (fl fp : V) (fs : List V),
      run S nl (F0 :: F1 :: rest) d0 v0 = some hh ∧
      hh.d = d0 :: Y.reverse ∧ hh.d.length = rest.length + 2 ∧
      (F1 :: rest).reverse ++ [S.K d0 + S.B v0, S.K (d0 - S.h • v0) + S.B v0] = fl :: fp :: fs ∧
      Documented (α := α) A A1 A0 N (hh.de :: (Y ++ [d0, d0 - S.h • v0]))
        (((2 : α) • fl - fp) :: fl :: fp :: fs) := by
  set um := d0 - S.h • v0 with hum
  -- state after the start-up step
  have hbase : Documented (α := α) A A1 A0 N (start S nl F1 d0 v0).hist
      (F1 :: (S.K d0 + S.B v0) :: [S.K um + S.B v0]) := by
    refine Documented.step (Documented.base _ _ _ _) ?_
    exact A_step S nl N A A1 A0 hsolve hA1 hA0 hnl F1 _ _ d0 um 0 [d0, um]
  obtain ⟨fl, fp, fs, Y', he, hd, hj, hg, hY⟩ :=
    loop_documented S nl N A A1 A0 hsolve hA1 hA0 hnl [d0, um] rest (start S nl F1 d0 v0) F1
      (S.K d0 + S.B v0) [S.K um + S.B v0] [(start S nl F1 d0 v0).u1] hbase rfl rfl rfl rfl
  set s := loop S nl (start S nl F1 d0 v0) (rest.map (scaled S)) with hs
  have hlen := hd.length_eq
  refine ⟨_, Y', fl, fp, fs, rfl, ?_, ?_, ?_, ?_⟩
  · simp only [← hs, hY]; simp
  · have h1 : (fl :: fp :: fs).length = rest.length + 3 := by rw [← he]; simp
    simp only [← hs]
    rw [List.length_tail, List.length_reverse, hlen, h1]; rfl
  · rw [← he]; simp [hum]
  · -- the extrapolated last step
    simp only [← hs]
    rw [← hY]
    cases hh : s.older with
    | nil =>
      -- impossible: the history has at least three entries
      exfalso
      have h2 : s.hist.length = 2 := by simp [LoopSt.hist, hh]
      have h1 : (fl :: fp :: fs).length = rest.length + 3 := by rw [← he]; simp
      rw [h2, h1] at hlen; omega
    | cons o os =>
      have hform : s.hist = s.u1 :: s.u0 :: s.older := rfl
      rw [hform] at hd ⊢
      refine Documented.step hd ?_
      have h3 : (3 : α) ≠ 0 := by norm_num
      simp only [lastStep, map_add, hA1, hA0, hnl, hg, hj, VecOps.smul, map_smul,
        A_scaled S A hsolve]
      rw [smul_smul, mul_inv_cancel₀ h3, one_smul]
      have : (3 : α)⁻¹ • ((2 : α) • fl - fp + fl + fp) = fl := by
        have : (2 : α) • fl - fp + fl + fp = (3 : α) • fl := by
          rw [show (3 : α) = 2 + 1 by norm_num, add_smul, one_smul]; abel
        rw [this, smul_smul, inv_mul_cancel₀ h3, one_smul]
      rw [this]; rfl

end documented

/-- velocities and accelerations are the documented central differences of the list
`[u₋₁, d_0, …, d_{nt-1}, De]`: `run` returns `a = accel (h·h) uu` and `v = v0 :: tail (velo (2h) uu)`,
and position `j` of those lists is `(u_{j+1} − 2u_j + u_{j−1}) / h²`, `(u_{j+1} − u_{j−1}) / (2h)`
(`v_0` is the given initial velocity, not a difference). -/
theorem newmark_central_differences {α V : Type} [Add V] [Sub V] [VecOps α V] [Mul α] [OfNat α 2] [OfNat α 3]
    (S : Sys V α) (nl : Nat → List V → V) (F0 F1 : V) (rest : List V) (d0 v0 : V) :
    ∃ hh uu, run S nl (F0 :: F1 :: rest) d0 v0 = some hh ∧
      uu = uM1 S d0 v0 :: (hh.d ++ [hh.de]) ∧
      hh.a = accel (S.h * S.h) uu ∧ hh.v = v0 :: (velo ((2 : α) * S.h) uu).tail ∧
      (∀ j a b c, uu[j]? = some a → uu[j + 1]? = some b → uu[j + 2]? = some c →
        (accel (S.h * S.h) uu)[j]? = some (VecOps.sdiv (c - VecOps.smul (2 : α) b + a) (S.h * S.h))) ∧
      (∀ j a c, uu[j]? = some a → uu[j + 2]? = some c →
        (velo ((2 : α) * S.h) uu)[j]? = some (VecOps.sdiv (c - a) ((2 : α) * S.h))) := by
  -- the history always ends with `u₋₁`
  have hend : ∀ (gs : List V) (s : LoopSt V) (Y : List V), s.hist = Y ++ [uM1 S d0 v0] →
      ∃ Y', (loop S nl s gs).hist = Y' ++ [uM1 S d0 v0] := by
    intro gs
    induction gs with
    | nil => intro s Y h; exact ⟨Y, by simpa [loop] using h⟩
    | cons g gs ih =>
      intro s Y h
      simp only [loop]
      exact ih _ (step S g s.g1 s.g0 (nl s.j s.hist) s.u1 s.u0 :: Y) (by
        simp only [LoopSt.hist] at h ⊢; rw [h]; rfl)
  obtain ⟨Y, hY⟩ := hend (rest.map (scaled S)) (start S nl F1 d0 v0)
    [(start S nl F1 d0 v0).u1, d0] rfl
  refine ⟨_, _, rfl, rfl, ?_, ?_, ?_, ?_⟩
  · simp only [extended, hY]; simp
  · simp only [extended, hY]; simp
  · intro j a b c; exact accel_getElem? _ _ j a b c
  · intro j a c; exact velo_getElem? _ _ j a c

/-! ## the scalar (diagonal) scheme: consistency, start-up defect, stability -/
section scalar
variable {α : Type} [Field α] [CharZero α]

/-- second-order consistency: on `u(s) = c0 + c1 s + c2 s²` with the matching force
`F = m u'' + b u' + k u` one application of the three-point recurrence (exactly as the code evaluates it:
forces divided by 3 and by `A`, `A1/A`, `A0/A`) reproduces `u(t + h)` exactly. -/
theorem newmark_consistent (m b k h c0 c1 c2 t : α) (hh : h ≠ 0) (hA : coefA m b k h ≠ 0) :
    step (scalarSys m b k h)
        (scaled (scalarSys m b k h) (quadForce m b k c0 c1 c2 (t + h)))
        (scaled (scalarSys m b k h) (quadForce m b k c0 c1 c2 t))
        (scaled (scalarSys m b k h) (quadForce m b k c0 c1 c2 (t - h)))
        0 (quad c0 c1 c2 t) (quad c0 c1 c2 (t - h))
      = quad c0 c1 c2 (t + h) := by
  have key : (quadForce m b k c0 c1 c2 (t + h) + quadForce m b k c0 c1 c2 t
        + quadForce m b k c0 c1 c2 (t - h)) / 3
      + coefA1 m k h * quad c0 c1 c2 t + coefA0 m b k h * quad c0 c1 c2 (t - h)
      = coefA m b k h * quad c0 c1 c2 (t + h) := by
    simp only [coefA, coefA1, coefA0, quadForce, quad]
    field_simp
    ring
  simp only [step, scaled, scalarSys, VecOps.sdiv]
  generalize coefA m b k h = A at *
  field_simp
  linear_combination 3 * key

/-- the documented start-up step on the same quadratic solution (`d0 = u(0)`, `v0 = u'(0)`, true force at
`t = h`): explicit first-step defect.  `c2 = u''(0)/2`. -/
theorem newmark_startup_defect (m b k h c0 c1 c2 : α) (hh : h ≠ 0) (hA : coefA m b k h ≠ 0) :
    coefA m b k h *
        ((start (scalarSys m b k h) (fun _ _ => 0) (quadForce m b k c0 c1 c2 h) c0 c1).u1
          - quad c0 c1 c2 h)
      = c2 * (b * h / 6 - m / 3) := by
  have key : (quadForce m b k c0 c1 c2 h + (k * c0 + b * c1) + (k * (c0 - h * c1) + b * c1)) / 3
      + coefA1 m k h * c0 + coefA0 m b k h * (c0 - h * c1) - coefA m b k h * quad c0 c1 c2 h
      = c2 * (b * h / 6 - m / 3) := by
    simp only [coefA, coefA1, coefA0, quadForce, quad]
    field_simp
    ring
  simp only [start, step, scaled, f0, fM1, uM1, scalarSys, VecOps.sdiv, VecOps.smul]
  rw [mul_sub, step_mul_A _ _ _ _ _ _ _ _ _ hA]
  linear_combination key

/-- the start-up is exact on a quadratic solution iff the initial force balances the initial state,
`F(0) = K u₀ + B v₀` (for `m ≠ 0`, `b h ≠ 2 m`): otherwise the first step carries an `O(h²)` displacement
error, i.e. an `O(h)` velocity error, and the global order drops from two to one. -/
theorem newmark_startup_exact_iff (m b k h c0 c1 c2 : α) (hh : h ≠ 0) (hA : coefA m b k h ≠ 0)
    (hm : m ≠ 0) (hbm : b * h ≠ 2 * m) :
    (start (scalarSys m b k h) (fun _ _ => 0) (quadForce m b k c0 c1 c2 h) c0 c1).u1 = quad c0 c1 c2 h
      ↔ quadForce m b k c0 c1 c2 0 = k * c0 + b * c1 := by
  have hd := newmark_startup_defect m b k h c0 c1 c2 hh hA
  have hne : b * h / 6 - m / 3 ≠ 0 := by
    intro h0
    apply hbm
    linear_combination 6 * h0
  have hF : quadForce m b k c0 c1 c2 0 = k * c0 + b * c1 ↔ c2 = 0 := by
    simp only [quadForce, quad]
    constructor
    · intro h1
      have : m * (2 * c2) = 0 := by linear_combination h1
      rcases mul_eq_zero.mp this with h2 | h2
      · exact absurd h2 hm
      · simpa using h2
    · intro h1; rw [h1]; ring
  rw [hF]
  constructor
  · intro h1
    rw [h1, sub_self, mul_zero] at hd
    rcases mul_eq_zero.mp hd.symm with h2 | h2
    · exact h2
    · exact absurd h2 hne
  · intro h1
    subst h1
    rw [zero_mul] at hd
    rcases mul_eq_zero.mp hd with h2 | h2
    · exact absurd h2 hA
    · exact sub_eq_zero.mp h2

end scalar

/-- unconditional stability of one damped diagonal DOF: `m ≥ 0` (massless allowed), `b, k > 0`, ANY step
`h > 0`: every (complex) root of the characteristic polynomial `A z² − A1 z − A0` of the homogeneous
recurrence has modulus `< 1`. -/
theorem newmark_stable_scalar (m b k h : ℝ) (hm : 0 ≤ m) (hb : 0 < b) (hk : 0 < k) (hh : 0 < h) (z : ℂ)
    (hz : ((coefA m b k h : ℝ) : ℂ) * z ^ 2 - ((coefA1 m k h : ℝ) : ℂ) * z - ((coefA0 m b k h : ℝ) : ℂ) = 0) :
    ‖z‖ < 1 := by
  have h1 : 0 ≤ m / (h * h) := by positivity
  have h2 : 0 < b / (2 * h) := by positivity
  have h3 : 0 < k / 3 := by positivity
  refine quad_roots_in_disc (coefA m b k h) (-coefA1 m k h) (-coefA0 m b k h) ?_ ?_ ?_ z ?_
  · rw [abs_lt]; simp only [coefA, coefA0]; constructor <;> linarith
  · simp only [coefA, coefA1, coefA0]; linarith
  · simp only [coefA, coefA1, coefA0]; linarith
  · push_cast; linear_combination hz

/-- massless DOF are handled: with `m = 0` the matrix `A` reduces to `b/(2h) + k/3`, positive as soon as
the DOF has damping or stiffness, so every division by `A` in the scheme is legitimate (this is the
hypothesis `coefA ≠ 0` of the theorems above). -/
theorem massless_ok (b k h : ℝ) (hh : 0 < h) (hb : 0 ≤ b) (hk : 0 ≤ k) (hbk : 0 < b + k) :
    coefA 0 b k h = b / (2 * h) + k / 3 ∧ 0 < coefA 0 b k h := by
  have e : coefA 0 b k h = b / (2 * h) + k / 3 := by simp [coefA]
  refine ⟨e, ?_⟩
  rw [e]
  rcases hb.lt_or_eq with hb' | hb'
  · have : 0 < b / (2 * h) := by positivity
    have : 0 ≤ k / 3 := by positivity
    linarith
  · have hk' : 0 < k := by linarith
    have : 0 ≤ b / (2 * h) := by positivity
    have : 0 < k / 3 := by positivity
    linarith

/-! ## coupled damping as force -/
section cdf
variable {V : Type} [AddCommGroup V]

/-- one pass of the `alpha` loop, started from a state with `Q = C_od q̇`, returns `(q', q̇', Q')` with
`Q' = C_od q̇'` and satisfying the implicit equations (1), (2) of the `SolveCDF` docstring, provided
`alpha = C_od Z` with `(I + Bp C_od) Z = I` (the `la.solve` in `SolveUnc.__init__`) and the diagonal
coefficient operators are additive. -/
theorem cdf_is_documented (C : Ops V) (Z : V → V) (hα : ∀ x, C.alpha x = C.bo (Z x))
    (hZ : ∀ x, Z x + C.Bp (C.bo (Z x)) = x)
    (hA : ∀ x y, C.A (x - y) = C.A x - C.A y) (hB : ∀ x y, C.B (x - y) = C.B x - C.B y)
    (hAp : ∀ x y, C.Ap (x - y) = C.Ap x - C.Ap y) (hBp : ∀ x y, C.Bp (x - y) = C.Bp x - C.Bp y)
    (d v p0 p1 : V) :
    (cdfStep C true (d, v, C.bo v) p0 p1).2.2 = C.bo (cdfStep C true (d, v, C.bo v) p0 p1).2.1 ∧
    (cdfStep C true (d, v, C.bo v) p0 p1).2.1
      = C.Fp d + C.Gp v + C.Ap (p0 - C.bo v) + C.Bp (p1 - C.bo (cdfStep C true (d, v, C.bo v) p0 p1).2.1) ∧
    (cdfStep C true (d, v, C.bo v) p0 p1).1
      = C.F d + C.G v + C.A (p0 - C.bo v) + C.B (p1 - C.bo (cdfStep C true (d, v, C.bo v) p0 p1).2.1) := by
  set vpart := C.Fp d + C.Gp v + (C.Ap p0 + C.Bp p1) - C.Ap (C.bo v) with hvp
  have hv1 : vpart - C.Bp (C.alpha vpart) = Z vpart := by
    rw [hα]; exact sub_eq_of_eq_add (hZ vpart).symm
  have e1 : (cdfStep C true (d, v, C.bo v) p0 p1).2.1 = Z vpart := by
    simp only [cdfStep, abf, if_true]; exact hv1
  have e2 : (cdfStep C true (d, v, C.bo v) p0 p1).2.2 = C.bo (Z vpart) := by
    simp only [cdfStep, abf, if_true]; exact hα _
  have e3 : (cdfStep C true (d, v, C.bo v) p0 p1).1
      = C.F d + C.G v + (C.A p0 + C.B p1) - C.A (C.bo v) - C.B (C.bo (Z vpart)) := by
    simp only [cdfStep, abf, if_true]; rw [hα]
  refine ⟨by rw [e1, e2], ?_, ?_⟩
  · rw [e1, hAp, hBp]
    have := hZ vpart
    rw [hvp] at this ⊢
    rw [← sub_eq_zero] at this ⊢
    rw [← this]; abel
  · rw [e3, e1, hA, hB]; abel

/-- with zero off-diagonal damping (`C_od = 0`, hence `alpha = C_od Z = 0`) the cd-as-force history is the
plain uncoupled recurrence of `SolveUnc` (`_solve_real_unc_inner_loop`), for either force order and
every force history. -/
theorem cdf_diag_eq_unc (C : Ops V) (Z : V → V) (hα : ∀ x, C.alpha x = C.bo (Z x)) (hbo : ∀ x, C.bo x = 0)
    (hA : C.A 0 = 0) (hB : C.B 0 = 0) (hAp : C.Ap 0 = 0) (hBp : C.Bp 0 = 0)
    (order1 : Bool) (d0 v0 : V) (P : List V) :
    (cdfRun C order1 d0 v0 P).map (fun s => (s.1, s.2.1)) = uncFrom C order1 (d0, v0) P ∧
    ∀ s ∈ cdfRun C order1 d0 v0 P, s.2.2 = 0 := by
  have hal : ∀ x, C.alpha x = 0 := fun x => by rw [hα, hbo]
  have hstep : ∀ (d v p0 p1 : V), cdfStep C order1 (d, v, 0) p0 p1
      = ((uncStep C order1 (d, v) p0 p1).1, (uncStep C order1 (d, v) p0 p1).2, 0) := by
    intro d v p0 p1
    simp only [cdfStep, uncStep, hal, hA, hB, hAp, hBp, sub_zero]
  have main : ∀ (P : List V) (d v : V),
      (cdfFrom C order1 (d, v, 0) P).map (fun s => (s.1, s.2.1)) = uncFrom C order1 (d, v) P ∧
      ∀ s ∈ cdfFrom C order1 (d, v, 0) P, s.2.2 = 0 := by
    intro P
    induction P with
    | nil => intro d v; simp [cdfFrom, uncFrom]
    | cons p0 P ih =>
      intro d v
      cases P with
      | nil => simp [cdfFrom, uncFrom]
      | cons p1 ps =>
        simp only [cdfFrom, uncFrom, hstep, List.map_cons, List.mem_cons]
        obtain ⟨i1, i2⟩ := ih (uncStep C order1 (d, v) p0 p1).1 (uncStep C order1 (d, v) p0 p1).2
        refine ⟨by rw [i1], ?_⟩
        intro s hs
        rcases hs with rfl | hs
        · rfl
        · exact i2 s hs
  simpa only [cdfRun, hbo] using main P d0 v0

end cdf

/-! ## non-vacuity: the hypotheses are inhabited -/

/-- a massless, damped DOF with a large step satisfies the hypotheses of `newmark_stable_scalar`,
`massless_ok` and `coefA ≠ 0` -/
example : (0 : ℝ) ≤ 0 ∧ (0 : ℝ) < 3 ∧ (0 : ℝ) < 5 ∧ (0 : ℝ) < 100 ∧ coefA (0 : ℝ) 3 5 100 ≠ 0 := by
  refine ⟨le_refl _, by norm_num, by norm_num, by norm_num, ?_⟩
  simp only [coefA]; norm_num

/-- the hypotheses of `newmark_startup_exact_iff` hold for `m = 1, b = 1/5, k = 4, h = 1/10`, and the start-up
is really inexact for `c2 = 1` (unbalanced initial force, `u(t) = t²`). -/
example : coefA (1 : ℚ) (1 / 5) 4 (1 / 10) ≠ 0 ∧ (1 : ℚ) ≠ 0 ∧ (1 / 5 : ℚ) * (1 / 10) ≠ 2 * 1 ∧
    (start (scalarSys (1 : ℚ) (1 / 5) 4 (1 / 10)) (fun _ _ => 0) (quadForce 1 (1 / 5) 4 0 0 1 (1 / 10)) 0 0).u1
      ≠ quad 0 0 1 (1 / 10) := by
  refine ⟨?_, by norm_num, by norm_num, ?_⟩
  · simp only [coefA]; norm_num
  · simp only [start, step, scaled, f0, fM1, uM1, scalarSys, coefA, coefA1, coefA0, quadForce, quad,
      VecOps.sdiv, VecOps.smul]
    norm_num

/-- the hypotheses of `newmark_is_documented` are inhabited by the scalar system over `ℚ` seen as a module
over itself (`A = coefA • id`) -/
example : ∃ (A : ℚ →ₗ[ℚ] ℚ), ∀ x, A ((scalarSys (1 : ℚ) (1 / 5) 4 (1 / 10)).solve x) = x := by
  refine ⟨coefA (1 : ℚ) (1 / 5) 4 (1 / 10) • LinearMap.id, fun x => ?_⟩
  simp only [scalarSys, coefA, LinearMap.smul_apply, LinearMap.id_apply, smul_eq_mul]
  norm_num
  ring

/-- `cdf_is_documented`'s hypotheses hold for the scalar operators `bo = (c * ·)`, `Bp = (β * ·)`,
`Z = (· / (1 + β c))` -/
example : ∀ x : ℚ, x / (1 + 2 * 3) + 2 * (3 * (x / (1 + 2 * 3))) = x := by
  intro x; ring

end PyYetiVerif.C17
