import PyYetiVerif.Lemmas.SuCoef
import PyYetiVerif.Lemmas.SuPartition
import Mathlib.Analysis.SpecialFunctions.Complex.Log
import Mathlib.Data.List.Sort
/-!
# C01 — exact time-domain solution for piecewise-linear / constant forcing

Property theorems only (helper lemmas live in `Lemmas/SuCoef.lean`).  The subject of every theorem is
the polymorphic transcription of `get_su_coef` / `_solve_real_unc_inner_loop` /
`_get_complex_su_coefs` / `_calc_acce_kdof` in `Model/SuCoef.lean`, instantiated at `ℝ` / `ℂ`; the
same definitions run at `Float` in `Drivers/C01.lean` and are compared with pyYeti on every run
(harness/props/c01.py).

Reading of the property.  One mode obeys `m x'' + b x' + k x = P(t)`; on a step `P(t) = p + s t`
(order 1: `p = P_j`, `s = (P_{j+1} - P_j)/h`; order 0: `s = 0`).  `IsSol m b k p s x₀ v₀ x v` says
`x' = v`, `v' = a` with `m a + b v + k x = p + s t` for every `t`, `x 0 = x₀`, `v 0 = v₀`.
`xSol r`, `vSol r` are the closed forms of regime `r`, built from the code's own `F, G, Fp, Gp`
as functions of the step.  `RegimeOK r m b k` is the exact mathematical condition of the regime
(`(b/2m)² < k/m`, …); the rigid regimes integrate the equation with `k` (and `b`) dropped
(`effK`, `effB`) — that is the documented meaning of a rigid-body mode.

Continued in `Props/C01Unique.lean` (uniqueness: "the" solution), `Props/C01Part.lean` (auto-detected
partition, `_mk_slice`), `Props/C01Static.lean` (initial conditions, rf rows), `Props/C01Coupled.lean`,
`Props/C01Delconj.lean` (complex-eigenvalue path, given the eigen-decomposition) and `Props/C01Exp.lean`
(`SolveExp2`, given `E`, `P`, `Q`).  Not proved (see PARTIAL in the harness module): `scipy.linalg.eig`,
`expm` themselves, the floating-point switch errors of the cut-offs.
-/
namespace PyYetiVerif.C01
open PyYetiVerif.SuCoef

/-! ### the closed forms solve the equation of motion -/

/-- under-damped: the closed form built from the code's `F, G, Fp, Gp` solves the ODE -/
theorem su_solves_ode_under (m b k p s x₀ v₀ : ℝ) (hm : m ≠ 0)
    (hu : (b / m / 2) * (b / m / 2) < k / m) :
    IsSol m b k p s x₀ v₀ (xSol .under m b k p s x₀ v₀) (vSol .under m b k p s x₀ v₀) := by
  obtain ⟨β, w, hw, rfl, rfl⟩ := under_params hm hu
  have hk : m * (w ^ 2 + β ^ 2) ≠ 0 := mul_ne_zero hm (by positivity)
  exact isSol_of_basis (basis_of_under m β w hm hw) hm hk p s x₀ v₀

/-- over-damped -/
theorem su_solves_ode_over (m b k p s x₀ v₀ : ℝ) (hm : m ≠ 0) (hk : k ≠ 0)
    (ho : k / m < (b / m / 2) * (b / m / 2)) :
    IsSol m b k p s x₀ v₀ (xSol .over m b k p s x₀ v₀) (vSol .over m b k p s x₀ v₀) := by
  obtain ⟨β, w, hw, rfl, rfl⟩ := over_params hm ho
  exact isSol_of_basis (basis_of_over m β w hm hw) hm hk p s x₀ v₀

/-- critically damped (`k/m = (b/2m)²` exactly) -/
theorem su_solves_ode_crit (m b k p s x₀ v₀ : ℝ) (hm : m ≠ 0) (hb : b ≠ 0)
    (hc : k / m = (b / m / 2) * (b / m / 2)) :
    IsSol m b k p s x₀ v₀ (xSol .crit m b k p s x₀ v₀) (vSol .crit m b k p s x₀ v₀) := by
  obtain ⟨β, rfl, rfl⟩ := crit_params hm hc
  have hβ : β ≠ 0 := fun h => hb (by rw [h]; ring)
  have hk : m * β ^ 2 ≠ 0 := mul_ne_zero hm (pow_ne_zero 2 hβ)
  exact isSol_of_basis (basis_of_crit m β hm) hm hk p s x₀ v₀

/-- rigid-body mode (`m x'' = p + s t`; the mode's `b`, `k` are ignored by the code) -/
theorem su_solves_ode_rb (m b k p s x₀ v₀ : ℝ) (hm : m ≠ 0) :
    IsSol m 0 0 p s x₀ v₀ (xSol .rigid m b k p s x₀ v₀) (vSol .rigid m b k p s x₀ v₀) :=
  isSol_rigid m p s x₀ v₀ hm b k

/-- damped rigid-body mode, full formulas (`m x'' + b x' = p + s t`) -/
theorem su_solves_ode_rb_damped (m b k p s x₀ v₀ : ℝ) (hm : m ≠ 0) (hb : b ≠ 0) :
    IsSol m b 0 p s x₀ v₀ (xSol .rigidFull m b k p s x₀ v₀) (vSol .rigidFull m b k p s x₀ v₀) :=
  isSol_rigidFull m b p s x₀ v₀ hm hb k

/-- all exact regimes at once -/
theorem su_solves_ode (r : Regime) (m b k p s x₀ v₀ : ℝ) (hr : RegimeOK r m b k) :
    IsSol m (effB r b) (effK r k) p s x₀ v₀ (xSol r m b k p s x₀ v₀) (vSol r m b k p s x₀ v₀) := by
  cases r with
  | rigid => exact su_solves_ode_rb m b k p s x₀ v₀ hr
  | rigidVelo => exact hr.elim
  | rigidFull => exact su_solves_ode_rb_damped m b k p s x₀ v₀ hr.1 hr.2
  | under => exact su_solves_ode_under m b k p s x₀ v₀ hr.1 hr.2
  | crit => exact su_solves_ode_crit m b k p s x₀ v₀ hr.1 hr.2.1 hr.2.2
  | over => exact su_solves_ode_over m b k p s x₀ v₀ hr.1 hr.2.1 hr.2.2
  | rf => exact hr.elim

/-! ### one step of the code is the closed form at `t = h` -/

/-- order 1: with the force linear on the step (`p = P0`, `s = (P1 - P0)/h`) the code's
`F, G, A, B, Fp, Gp, Ap, Bp` give exactly `x(h)`, `v(h)` of the closed form -/
theorem su_coef_eq (r : Regime) (m b k h x₀ v₀ P0 P1 : ℝ) (hr : RegimeOK r m b k) (hh : h ≠ 0) :
    stepUnc1 (suCoef r m b k h) (x₀, v₀) P0 P1 =
      (xSol r m b k P0 ((P1 - P0) / h) x₀ v₀ h, vSol r m b k P0 ((P1 - P0) / h) x₀ v₀ h) := by
  cases r with
  | rigid => exact step_rigid m b k h x₀ v₀ P0 P1 hr hh
  | rigidVelo => exact hr.elim
  | rigidFull => exact step_rigidFull m b k h x₀ v₀ P0 P1 hr.1 hr.2 hh
  | under =>
    obtain ⟨β, w, hw, rfl, rfl⟩ := under_params hr.1 hr.2
    exact step_under m β w h x₀ v₀ P0 P1 hr.1 hw hh
  | crit =>
    obtain ⟨hm, hb, hc⟩ := hr
    obtain ⟨β, rfl, rfl⟩ := crit_params hm hc
    have hβ : β ≠ 0 := fun h => hb (by rw [h]; ring)
    exact step_crit m β h x₀ v₀ P0 P1 hm hβ hh
  | over =>
    obtain ⟨hm, hk, ho⟩ := hr
    obtain ⟨β, w, hw, rfl, rfl⟩ := over_params hm ho
    have hk' : β ^ 2 - w ^ 2 ≠ 0 := fun h => hk (by rw [h]; ring)
    exact step_over m β w h x₀ v₀ P0 P1 hm hw hk' hh
  | rf => exact hr.elim

/-- order 0 (`A + B`, `Ap + Bp` applied to the left sample): exact for a held force -/
theorem order0_exact (r : Regime) (m b k h x₀ v₀ P0 : ℝ) (hr : RegimeOK r m b k) (hh : h ≠ 0) :
    stepUnc0 (suCoef r m b k h) (x₀, v₀) P0 =
      (xSol r m b k P0 0 x₀ v₀ h, vSol r m b k P0 0 x₀ v₀ h) := by
  have h1 : stepUnc0 (suCoef r m b k h) (x₀, v₀) P0 = stepUnc1 (suCoef r m b k h) (x₀, v₀) P0 P0 := by
    simp only [stepUnc0, stepUnc1]
    refine Prod.ext ?_ ?_ <;> simp only <;> ring
  have h2 := su_coef_eq r m b k h x₀ v₀ P0 P0 hr hh
  simpa [h1] using h2

/-- the velocity-only damped rigid regime (`|C|` between the two cut-offs) is exact for the
velocity; its displacement is by design the *undamped* rigid-body update (defect `O(β h)`) -/
theorem rigidVelo_velocity_exact (m b k h x₀ v₀ P0 P1 : ℝ) (hm : m ≠ 0) (hb : b ≠ 0) (hh : h ≠ 0) :
    (stepUnc1 (suCoef .rigidVelo m b k h) (x₀, v₀) P0 P1).2
        = vSol .rigidFull m b k P0 ((P1 - P0) / h) x₀ v₀ h ∧
    (stepUnc1 (suCoef .rigidVelo m b k h) (x₀, v₀) P0 P1).1
        = xSol .rigid m b k P0 ((P1 - P0) / h) x₀ v₀ h := by
  constructor
  · have h1 := congrArg Prod.snd (step_rigidFull m b k h x₀ v₀ P0 P1 hm hb hh)
    simp only at h1
    rw [← h1]
    simp only [stepUnc1, suCoef, rigidVeloCoef, rigidFullCoef, rigidCoef]
  · have h1 := congrArg Prod.fst (step_rigid m b k h x₀ v₀ P0 P1 hm hh)
    simp only at h1
    rw [← h1]
    simp only [stepUnc1, suCoef, rigidVeloCoef, rigidFullCoef, rigidCoef]

/-- residual-flexibility coefficients give the static solution `k d = f`, `v = 0` -/
theorem rf_static (m b k h x₀ v₀ P0 P1 : ℝ) (hk : k ≠ 0) :
    k * (stepUnc1 (suCoef .rf m b k h) (x₀, v₀) P0 P1).1 = P1 ∧
      (stepUnc1 (suCoef .rf m b k h) (x₀, v₀) P0 P1).2 = 0 := by
  simp only [stepUnc1, suCoef, rfCoef]
  constructor
  · field_simp
    ring
  · ring

/-! ### the whole recurrence -/

/-- every sample of `runUnc` is the end state (at `t = h`) of a solution of the equation of motion
with the hold forcing of that step, started from the previous sample -/
theorem run_exact (r : Regime) (m b k h : ℝ) (hr : RegimeOK r m b k) (hh : h ≠ 0) (order1 : Bool) :
    ∀ (fs : List ℝ) (dv : ℝ × ℝ) (j : ℕ) (dj dj1 : ℝ × ℝ) (f0 f1 : ℝ),
      (runUnc order1 (suCoef r m b k h) dv fs)[j]? = some dj →
      (runUnc order1 (suCoef r m b k h) dv fs)[j + 1]? = some dj1 →
      fs[j]? = some f0 → fs[j + 1]? = some f1 →
      ∃ x v : ℝ → ℝ,
        IsSol m (effB r b) (effK r k) f0 (if order1 then (f1 - f0) / h else 0) dj.1 dj.2 x v ∧
        dj1 = (x h, v h) := by
  intro fs
  induction fs with
  | nil => intro dv j dj dj1 f0 f1 _ _ h3 _; simp at h3
  | cons g0 tl ih =>
    intro dv j dj dj1 f0 f1 h1 h2 h3 h4
    cases tl with
    | nil => simp at h4
    | cons g1 rest =>
      rw [runUnc] at h1 h2
      cases j with
      | zero =>
        simp only [List.getElem?_cons_zero, Option.some.injEq] at h1 h3
        simp only [zero_add, List.getElem?_cons_succ, List.getElem?_cons_zero,
          Option.some.injEq] at h2 h4
        subst h1 h3 h4
        have hd : (runUnc order1 (suCoef r m b k h) (stepUnc order1 (suCoef r m b k h) dv g0 g1)
            (g1 :: rest))[0]? = some (stepUnc order1 (suCoef r m b k h) dv g0 g1) := by
          cases rest <;> simp [runUnc]
        rw [hd] at h2
        simp only [Option.some.injEq] at h2
        refine ⟨xSol r m b k g0 (if order1 then (g1 - g0) / h else 0) dv.1 dv.2,
          vSol r m b k g0 (if order1 then (g1 - g0) / h else 0) dv.1 dv.2,
          su_solves_ode r m b k g0 _ dv.1 dv.2 hr, ?_⟩
        rw [← h2]
        cases order1 with
        | true => simpa [stepUnc] using su_coef_eq r m b k h dv.1 dv.2 g0 g1 hr hh
        | false => simpa [stepUnc] using order0_exact r m b k h dv.1 dv.2 g0 hr hh
      | succ j =>
        simp only [List.getElem?_cons_succ] at h1 h2 h3 h4
        exact ih _ j dj dj1 f0 f1 h1 h2 h3 h4

/-- the recurrence returns one sample per force sample, the first one being the initial state -/
theorem run_length (order1 : Bool) (c : Coefs ℝ) :
    ∀ (fs : List ℝ) (dv : ℝ × ℝ), (runUnc order1 c dv fs).length = fs.length ∧
      (fs ≠ [] → (runUnc order1 c dv fs)[0]? = some dv) := by
  intro fs
  induction fs with
  | nil => intro dv; simp [runUnc]
  | cons g0 tl ih =>
    intro dv
    cases tl with
    | nil => simp [runUnc]
    | cons g1 rest =>
      rw [runUnc]
      have := (ih (stepUnc order1 c dv g0 g1)).1
      simp [this]

/-! ### acceleration -/

/-- `_calc_acce_kdof`: the returned acceleration satisfies the equation of motion at the sample
(mass vector, and `m is None`) -/
theorem accel_eom (m b k d v f : ℝ) (hm : m ≠ 0) :
    m * calcAcce m b k d v f + b * v + k * d = f ∧ calcAcceNone b k d v f + b * v + k * d = f := by
  simp only [calcAcce, calcAcceNone]
  constructor
  · field_simp
    ring
  · ring

/-! ### `m is None` is `m = 1` -/

theorem mNone_eq_mOne (r : Regime) (b k h : ℝ) :
    suCoefOpt r none b k h = suCoefOpt r (some 1) b k h := by
  cases r <;> simp [suCoefOpt, suCoef, rigidCoef]

/-! ### complex-eigenvalue path -/

noncomputable instance instTransOpsComplex : TransOps ℂ :=
  ⟨Complex.exp, Complex.cos, Complex.sin, fun z => Complex.exp (Complex.log z / 2), fun z => (‖z‖ : ℂ)⟩

/-- closed form of `y' = lam y + w0 + s t`, `y 0 = y0` (`lam ≠ 0`) -/
noncomputable def yCplx (lam w0 s y0 : ℂ) (t : ℂ) : ℂ :=
  Complex.exp (lam * t) * (y0 + w0 / lam + s / lam ^ 2) - w0 / lam - s * t / lam - s / lam ^ 2

/-- the closed form solves the decoupled first-order equation (complex time, hence also along the
real axis: second statement) and starts at `y0` -/
theorem cplx_solves_ode (lam w0 s y0 : ℂ) (hl : lam ≠ 0) :
    (∀ t : ℂ, HasDerivAt (yCplx lam w0 s y0) (lam * yCplx lam w0 s y0 t + w0 + s * t) t) ∧
    (∀ t : ℝ, HasDerivAt (fun t : ℝ => yCplx lam w0 s y0 t)
      (lam * yCplx lam w0 s y0 t + w0 + s * t) t) ∧
    yCplx lam w0 s y0 0 = y0 := by
  have h1 : ∀ t : ℂ, HasDerivAt (yCplx lam w0 s y0) (lam * yCplx lam w0 s y0 t + w0 + s * t) t := by
    intro t
    have he : HasDerivAt (fun t : ℂ => Complex.exp (lam * t)) (Complex.exp (lam * t) * lam) t := by
      have h := ((hasDerivAt_id' t).const_mul lam).cexp
      simpa using h
    have h := (((he.mul_const (y0 + w0 / lam + s / lam ^ 2)).sub_const (w0 / lam)).fun_sub
      (((hasDerivAt_id' t).const_mul s).div_const lam)).sub_const (s / lam ^ 2)
    refine h.congr_deriv ?_
    simp only [yCplx]
    field_simp
    ring
  refine ⟨h1, fun t => (h1 t).comp_ofReal, ?_⟩
  simp only [yCplx]
  simp
  field_simp
  ring

/-- `Fe, Ae, Be` of `_get_complex_su_coefs` make one step equal to the closed form at `t = h` for
`w(t)` linear on the step -/
theorem cplx_coef_eq (lam h y0 w0 w1 : ℂ) (hl : lam ≠ 0) (hh : h ≠ 0) :
    stepCplx true (cplxCoef lam h) y0 w0 w1 = yCplx lam w0 ((w1 - w0) / h) y0 h := by
  simp only [stepCplx, cplxCoef, yCplx, TransOps.exp, if_true]
  field_simp
  ring

/-- the `|lam| < 5e-5` branch (`Fe = 1, Ae = Be = h/2`) is the exact step for `lam = 0` -/
theorem cplx_small_exact (h y0 w0 w1 : ℂ) (hh : h ≠ 0) :
    (∀ t : ℂ, HasDerivAt (fun t => y0 + w0 * t + ((w1 - w0) / h) * t ^ 2 / 2)
      (0 * (y0 + w0 * t + ((w1 - w0) / h) * t ^ 2 / 2) + w0 + ((w1 - w0) / h) * t) t) ∧
    stepCplx true (cplxSmall h) y0 w0 w1 = y0 + w0 * h + ((w1 - w0) / h) * h ^ 2 / 2 := by
  constructor
  · intro t
    have h := (((hasDerivAt_id' t).const_mul w0).const_add y0).fun_add
      ((((hasDerivAt_id' t).fun_pow 2).const_mul ((w1 - w0) / h)).div_const 2)
    refine h.congr_deriv ?_
    field_simp
    ring
  · simp only [stepCplx, cplxSmall, if_true]
    field_simp
    ring

/-! ### non-vacuity: every regime hypothesis is inhabited, and a concrete step -/

example : RegimeOK .under 2 1 8 := by norm_num [RegimeOK]
example : RegimeOK .over 2 20 8 := by norm_num [RegimeOK]
example : RegimeOK .crit 2 8 8 := by norm_num [RegimeOK]
example : RegimeOK .rigid 2 0 0 := by norm_num [RegimeOK]
example : RegimeOK .rigidFull 2 3 0 := by norm_num [RegimeOK]

/-- a concrete rigid-body step: `m = 2, h = 1`, force `1 → 3`, from rest: `d = 5/12`, `v = 1` -/
example : stepUnc1 (suCoef .rigid (2 : ℝ) 0 0 1) (0, 0) 1 3 = (5 / 12, 1) := by
  simp only [stepUnc1, suCoef, rigidCoef]
  refine Prod.ext ?_ ?_ <;> norm_num

example : ∃ x v : ℝ → ℝ, IsSol 2 1 8 1 3 0 0 x v :=
  ⟨_, _, su_solves_ode_under 2 1 8 1 3 0 0 (by norm_num) (by norm_num)⟩

/-! ### partition bookkeeping (`_common_precalcs`, `_make_rb_el`, the `rbmodes` handed to `get_su_coef`) -/

section partition
open PyYetiVerif.SuPartition

theorem mem_el (n : Nat) (rb rf : List Nat) (small : Nat → Bool) (g : Nat) :
    g ∈ (mkPart n (some rb) rf small).el ↔ g < n ∧ g ∉ rf ∧ g ∉ rb := by
  show g ∈ (List.range n).filter (take (nonrf n rf) ((List.range (nonrf n rf).length).filter
      fun i => !(relWhere (nonrf n rf) rb.contains).contains i)).contains ↔ _
  rw [List.mem_filter, List.mem_range, List.contains_iff_mem, mem_take_compl, mem_nonrf]
  simp only [List.contains_eq_mem, decide_eq_false_iff_not]
  constructor
  · rintro ⟨h1, ⟨_, h2⟩, h3⟩; exact ⟨h1, h2, h3⟩
  · rintro ⟨h1, h2, h3⟩; exact ⟨h1, ⟨h1, h2⟩, h3⟩

/-- for an explicit in-range `rb` disjoint from `rf`: `rb`, `el`, `rf` partition `[0, n)`; the
positions `_rb` handed to `get_su_coef` together with the non-rf partitions of `m, b, k` select
exactly the rigid-body modes, and `_el` exactly the elastic ones -/
theorem partition_ok (n : Nat) (rb rf : List Nat) (small : Nat → Bool)
    (hrb : ∀ i ∈ rb, i < n) (hdis : ∀ i ∈ rb, i ∉ rf) :
    (∀ i, i < n → (i ∈ (mkPart n (some rb) rf small).rb ∨ i ∈ (mkPart n (some rb) rf small).el
        ∨ i ∈ (mkPart n (some rb) rf small).rf)) ∧
    (∀ i, ¬(i ∈ (mkPart n (some rb) rf small).rb ∧ i ∈ (mkPart n (some rb) rf small).el)) ∧
    (∀ i, ¬(i ∈ (mkPart n (some rb) rf small).el ∧ i ∈ (mkPart n (some rb) rf small).rf)) ∧
    (∀ i, ¬(i ∈ (mkPart n (some rb) rf small).rb ∧ i ∈ (mkPart n (some rb) rf small).rf)) ∧
    (∀ g, g ∈ take (mkPart n (some rb) rf small).nonrf (coefRb (mkPart n (some rb) rf small)) ↔
        g ∈ (mkPart n (some rb) rf small).rb) ∧
    (∀ g, g ∈ take (mkPart n (some rb) rf small).nonrf (mkPart n (some rb) rf small).el' ↔
        g ∈ (mkPart n (some rb) rf small).el) := by
  have hrbmem : ∀ g, g ∈ (mkPart n (some rb) rf small).rb ↔ g ∈ rb := fun g => by
    show g ∈ sortNat rb ↔ _
    exact mem_sortNat
  have hrfdef : (mkPart n (some rb) rf small).rf = rf := rfl
  refine ⟨fun i hi => ?_, fun i h => ?_, fun i h => ?_, fun i h => ?_, fun g => ?_, fun g => ?_⟩
  · rw [hrbmem, hrfdef, mem_el]
    by_cases h1 : i ∈ rb
    · exact Or.inl h1
    · by_cases h2 : i ∈ rf
      · exact Or.inr (Or.inr h2)
      · exact Or.inr (Or.inl ⟨hi, h2, h1⟩)
  · rw [hrbmem, mem_el] at h
    exact h.2.2.2 h.1
  · rw [hrfdef, mem_el] at h
    exact h.1.2.1 h.2
  · rw [hrbmem, hrfdef] at h
    exact hdis i h.1 h.2
  · rw [hrbmem]
    show g ∈ take (nonrf n rf) (relWhere (nonrf n rf) rb.contains) ↔ g ∈ rb
    rw [mem_take_relWhere, mem_nonrf]
    simp only [List.contains_eq_mem, decide_eq_true_eq]
    exact ⟨fun h => h.2, fun h => ⟨⟨hrb g h, hdis g h⟩, h⟩⟩
  · rw [mem_el]
    show g ∈ take (nonrf n rf) ((List.range (nonrf n rf).length).filter
      fun i => !(relWhere (nonrf n rf) rb.contains).contains i) ↔ _
    rw [mem_take_compl, mem_nonrf]
    simp only [List.contains_eq_mem, decide_eq_false_iff_not]
    constructor
    · rintro ⟨⟨h1, h2⟩, h3⟩; exact ⟨h1, h2, h3⟩
    · rintro ⟨h1, h2, h3⟩; exact ⟨⟨h1, h2⟩, h3⟩

/-- the failing layout of finding F21 (rf first): the positions handed to `get_su_coef` are the
non-rf-relative ones `[0]`, not the full-size `rb = [1]` -/
example : coefRb (mkPart 3 (some [1]) [0] fun _ => false) = [0] ∧
    (mkPart 3 (some [1]) [0] fun _ => false).rb = [1] ∧
    (mkPart 3 (some [1]) [0] fun _ => false).el = [2] := by decide

/-- the content of repair 6524aad: the rigid-body modes listed by `_rb` (positions in the non-rf
partition) are, in the same order, the modes listed by `rb` -/
theorem rb_order_agrees (n : Nat) (rb rf : List Nat) (small : Nat → Bool) (hnd : rb.Nodup)
    (hrb : ∀ i ∈ rb, i < n) (hdis : ∀ i ∈ rb, i ∉ rf) :
    take (mkPart n (some rb) rf small).nonrf (mkPart n (some rb) rf small).rb'
      = (mkPart n (some rb) rf small).rb ∧
    (mkPart n (some rb) rf small).rb.Pairwise (· < ·) := by
  have hL : take (nonrf n rf) (relWhere (nonrf n rf) rb.contains)
      = (List.range n).filter fun i => (!rf.contains i) && rb.contains i := by
    rw [take_relWhere_eq_filter, nonrf, List.filter_filter]
    congr 1; funext i; exact Bool.and_comm _ _
  have hLs : ((List.range n).filter fun i => (!rf.contains i) && rb.contains i).Pairwise (· < ·) :=
    List.Pairwise.sublist List.filter_sublist List.pairwise_lt_range
  have hperm : ((List.range n).filter fun i => (!rf.contains i) && rb.contains i).Perm (sortNat rb) := by
    refine (List.perm_ext_iff_of_nodup (hLs.imp (fun h => Nat.ne_of_lt h)) ((sortNat_perm rb).nodup_iff.2 hnd)).2 ?_
    intro a
    rw [mem_sortNat, List.mem_filter, List.mem_range]
    simp only [Bool.and_eq_true, Bool.not_eq_true', List.contains_eq_mem, decide_eq_true_eq,
      decide_eq_false_iff_not]
    exact ⟨fun h => h.2.2, fun h => ⟨hrb a h, hdis a h, h⟩⟩
  have heq : ((List.range n).filter fun i => (!rf.contains i) && rb.contains i) = sortNat rb :=
    hperm.eq_of_pairwise' (hLs.imp (fun h => Nat.le_of_lt h)) (sortNat_pairwise rb)
  refine ⟨?_, ?_⟩
  · show take (nonrf n rf) (relWhere (nonrf n rf) rb.contains) = sortNat rb
    rw [hL, heq]
  · show (sortNat rb).Pairwise (· < ·)
    rw [← heq]; exact hLs

example : take (mkPart 4 (some [3, 1]) [0] fun _ => false).nonrf (mkPart 4 (some [3, 1]) [0] fun _ => false).rb' = [1, 3] ∧
    (mkPart 4 (some [3, 1]) [0] fun _ => false).rb = [1, 3] := by decide

end partition

end PyYetiVerif.C01
