import PyYetiVerif.Props.C02i
/-!
# C02 (continued) — `SolveUnc.fsolve` = `FreqDirect.fsolve` at full size for uncoupled systems

With the damping of the rigid-body modes inside the rigid-body block (repaired code, findings
F51 / F52) the full-size matrix `colSU_solves` is about and the one `colFD_solves` is about coincide
for an uncoupled system whose rigid-body equations have zero stiffness (`partStiff_unc_su_eq_fd`) —
whatever their damping —, so the two returned columns are the same column (`colSU_eq_colFD_unc`).
Before the repair this failed exactly on the rows of the damped rigid-body modes.
-/
set_option linter.unusedSimpArgs false
set_option linter.unusedSectionVars false
set_option linter.unusedVariables false
namespace PyYetiVerif.C02
open PyYetiVerif.Freq

section unc
variable {α : Type} [Field α]

/-- the matrix of `colSU_solves` (rigid-body block `iΩB − Ω²M`, elastic block, rf block) and the
matrix of `colFD_solves` (one block on all non-rf equations, rf block) are the same matrix when
`M, B, K` are diagonal and the rigid-body equations have no stiffness -/
theorem partStiff_unc_su_eq_fd (i w : α) (M B K : Nat → Nat → α) (rb el rf nonrf : List Nat)
    (hdiag : ∀ r c, r ≠ c → M r c = 0 ∧ B r c = 0 ∧ K r c = 0)
    (hk : ∀ r ∈ rb, K r r = 0)
    (hnonrf : ∀ r, r ∈ nonrf ↔ r ∈ rb ∨ r ∈ el) :
    ∀ r c, partStiff i w M B B K rb el rf r c = partStiff i w M B B K [] nonrf rf r c := by
  intro r c
  by_cases hrc : r = c
  · subst hrc
    by_cases h1 : r ∈ rb
    · have h2 : r ∈ nonrf := (hnonrf r).2 (Or.inl h1)
      simp [partStiff, h1, h2, hk r h1]
    · by_cases h2 : r ∈ el
      · have h3 : r ∈ nonrf := (hnonrf r).2 (Or.inr h2)
        simp [partStiff, h1, h2, h3]
      · have h3 : r ∉ nonrf := fun h => by
          rcases (hnonrf r).1 h with h | h
          · exact h1 h
          · exact h2 h
        simp [partStiff, h1, h2, h3]
  · obtain ⟨hm, hb, hk'⟩ := hdiag r c hrc
    simp only [partStiff, hm, hb, hk']
    split_ifs <;> simp

/-- **uncoupled systems: `SolveUnc.fsolve` and `FreqDirect.fsolve` return the same column**
(`incrb = "dva"`, `rf_disp_only = False`, `Ω ≠ 0`), rigid-body modes with any damping included:
both columns satisfy the same diagonal full-size equation (`colSU_solves`, `colFD_solves`,
`partStiff_unc_su_eq_fd`).  `hk`: the rigid-body equations have no stiffness (the detection
threshold `|k| < 0.005` is treated as zero by `SolveUnc` and kept by `FreqDirect`). -/
theorem colSU_eq_colFD_unc (e : ColEnv α) (hz : ∀ x, e.isZero x = true ↔ x = 0)
    (L : Layout) (hrbg : gather L.nonrf L.rb_ = some L.rb) (helg : gather L.nonrf L.el_ = some L.el)
    (hperm : (L.rb ++ L.el ++ L.rf).Perm (List.range L.n))
    (hpermFD : (L.nonrf ++ L.rf).Perm (List.range L.n))
    (hnonrf : ∀ r, r ∈ L.nonrf ↔ r ∈ L.rb ∨ r ∈ L.el)
    (uncReal : Bool) (st : SuState) (hst : suInit L (!uncReal) e.mNone = some st)
    (F : Nat → α) (w : α) (hw : w ≠ 0)
    (hi : e.i * e.i = -1) (hinc : e.inc = Incrb.all) (hdo : e.dispOnly = false)
    (hmn : e.mNone = true → ∀ r c, e.M r c = if r = c then 1 else 0)
    (hu : e.unc = true)
    (hdiag : ∀ r c, r ≠ c → e.M r c = 0 ∧ e.B r c = 0 ∧ e.K r c = 0)
    (hrf : ∀ r ∈ L.rf, e.K r r ≠ 0) (hm : ∀ r ∈ L.rb, e.M r r ≠ 0) (hk : ∀ r ∈ L.rb, e.K r r = 0)
    (hden : ∀ r ∈ L.nonrf, e.i * e.B r r * w + e.K r r - e.M r r * (w * w) ≠ 0)
    (solSU solFD : List (Dva α))
    (h1 : colSU e st uncReal none F w = .ok solSU) (h2 : colFD e L F w = .ok solFD) :
    ∀ r, r < L.n → rowOf solSU r = rowOf solFD r := by
  have hSU := colSU_solves e hz L hrbg helg hperm uncReal (fun _ => hu) st hst none F w hw hi hinc hdo hmn
    (fun _ => ⟨hdiag, hrf, hm,
      fun r hr => by
        have := hden r ((hnonrf r).2 (Or.inl hr))
        rw [hk r hr] at this
        intro h0; apply this
        rw [show e.i * e.B r r * w + 0 - e.M r r * (w * w) = -(w * w) * e.M r r + e.i * w * e.B r r by ring]
        exact h0,
      fun r hr => by
        have := hden r ((hnonrf r).2 (Or.inr hr))
        intro h0; apply this
        rw [show e.i * e.B r r * w + e.K r r - e.M r r * (w * w) =
          e.i * (e.B r r * w) + e.K r r - e.M r r * (w * w) by ring]
        exact h0⟩)
    (fun h => by rw [hu] at h; cases h) solSU h1
  have hFD := colFD_solves e hz L hpermFD F w hinc hdo hmn
    (fun _ => ⟨hdiag, hrf, hden⟩) solFD h2
  have hsame := partStiff_unc_su_eq_fd e.i w e.M e.B e.K L.rb L.el L.rf L.nonrf hdiag hk hnonrf
  have hdamp : e.rbDamping = e.B := by
    funext r c; simp [ColEnv.rbDamping, hu]
  intro r hr
  obtain ⟨s1, s2, s3⟩ := hSU r hr
  obtain ⟨f1, f2, f3⟩ := hFD r hr
  rw [hdamp] at s1
  -- the common matrix is diagonal
  have hoff : ∀ c, c ≠ r → partStiff e.i w e.M e.B e.B e.K [] L.nonrf L.rf r c = 0 := by
    intro c hc
    obtain ⟨a, b, k⟩ := hdiag r c (Ne.symm hc)
    simp only [partStiff, a, b, k]
    split_ifs <;> simp
  have hrow : ∀ sol : List (Dva α),
      ((List.range L.n).map fun c =>
        partStiff e.i w e.M e.B e.B e.K [] L.nonrf L.rf r c * (rowOf sol c).d).sum =
      partStiff e.i w e.M e.B e.B e.K [] L.nonrf L.rf r r * (rowOf sol r).d := by
    intro sol
    exact sum_range_diag L.n r hr _ (fun c hc => by rw [hoff c hc, zero_mul])
  have s1' : partStiff e.i w e.M e.B e.B e.K [] L.nonrf L.rf r r * (rowOf solSU r).d = F r := by
    rw [← hrow solSU, ← s1]
    congr 1
    apply List.map_congr_left
    intro c _
    rw [hsame r c]
  have f1' : partStiff e.i w e.M e.B e.B e.K [] L.nonrf L.rf r r * (rowOf solFD r).d = F r := by
    rw [← hrow solFD, ← f1]
  -- the diagonal entry is not zero
  have hpiv : partStiff e.i w e.M e.B e.B e.K [] L.nonrf L.rf r r ≠ 0 := by
    have hmem : r ∈ L.nonrf ++ L.rf := hpermFD.mem_iff.2 (List.mem_range.2 hr)
    rcases List.mem_append.1 hmem with h | h
    · simp only [partStiff, List.contains_nil, Bool.false_and, Bool.false_eq_true, if_false,
        List.contains_eq_mem, h, decide_true, Bool.and_self, if_true]
      exact hden r h
    · have hnd : (L.nonrf ++ L.rf).Nodup := hpermFD.nodup_iff.2 List.nodup_range
      have hnot : r ∉ L.nonrf := fun h' => (List.nodup_append.1 hnd).2.2 r h' r h rfl
      simp only [partStiff, List.contains_nil, Bool.false_and, Bool.false_eq_true, if_false,
        List.contains_eq_mem, h, hnot, decide_true, decide_false, Bool.and_self, if_true]
      exact hrf r h
  have hd : (rowOf solSU r).d = (rowOf solFD r).d :=
    mul_left_cancel₀ hpiv (s1'.trans f1'.symm)
  rcases hx : rowOf solSU r with ⟨d1, v1, a1⟩
  rcases hy : rowOf solFD r with ⟨d2, v2, a2⟩
  rw [hx] at s2 s3 hd
  rw [hy] at f2 f3 hd
  simp only at s2 s3 f2 f3 hd
  subst hd
  rw [s2, s3, f2, f3]

end unc

/-! ### the full-size equation for every value of `incrb` and `rf_disp_only`

`colSU_solves` is stated for `incrb = "dva"`, `rf_disp_only = False`; `colSU_options` relates every
other option value to that column entry by entry.  Put together: a *direct* statement about the
column returned for any option value. -/

section opts
variable {α : Type} [Field α]

/-- **one column of `SolveUnc.fsolve` for every `incrb` subset and both `rf_disp_only` values**
(`Ω ≠ 0`): whenever the `"dva"` column exists, the column for the options exists and
* satisfies the full-size equation `partStiff · d = F` on every elastic and residual-flexibility
  row, and on the rigid-body rows as well iff `"d"` is requested (otherwise `d` is zero there);
* has `v = iΩd`, `a = −Ω²d` on the elastic rows; on the residual-flexibility rows `v = a = 0` if
  `rf_disp_only` and `v = iΩd`, `a = −Ω²d` otherwise;
* on a rigid-body row every excluded letter is zero and the requested letters keep their relations
  (`v = iΩd` if `d`, `v` requested; `a = −Ω²d` if `d`, `a`; `a = iΩv` if `v`, `a`). -/
theorem colSU_solves_options (e : ColEnv α) (hz : ∀ x, e.isZero x = true ↔ x = 0)
    (L : Layout) (hrbg : gather L.nonrf L.rb_ = some L.rb) (helg : gather L.nonrf L.el_ = some L.el)
    (hperm : (L.rb ++ L.el ++ L.rf).Perm (List.range L.n))
    (uncReal : Bool) (huc : uncReal = true → e.unc = true)
    (st : SuState) (hst : suInit L (!uncReal) e.mNone = some st)
    (eig : Option (EigData α st.kdof.length)) (F : Nat → α) (w : α) (hw : w ≠ 0)
    (hi : e.i * e.i = -1)
    (hmn : e.mNone = true → ∀ r c, e.M r c = if r = c then 1 else 0)
    (hunc : e.unc = true → (∀ r c, r ≠ c → e.M r c = 0 ∧ e.B r c = 0 ∧ e.K r c = 0) ∧
      (∀ r ∈ L.rf, e.K r r ≠ 0) ∧ (∀ r ∈ L.rb, e.M r r ≠ 0) ∧
      (∀ r ∈ L.rb, -(w * w) * e.M r r + e.i * w * e.B r r ≠ 0) ∧
      ∀ r ∈ L.el, e.i * (e.B r r * w) + e.K r r - e.M r r * (w * w) ≠ 0)
    (hcoup : e.unc = false → ∀ ed, eig = some ed →
      ∃ Uv : Fin st.kdof.length → Fin ed.s → α,
        Matrix.of (fun p q : Fin st.kdof.length => e.M st.kdof[p] st.kdof[q]) *
            (Matrix.of Uv * Matrix.diagonal ed.lam)
          + Matrix.of (fun p q : Fin st.kdof.length => e.B st.kdof[p] st.kdof[q]) * Matrix.of Uv
          + Matrix.of (fun p q : Fin st.kdof.length => e.K st.kdof[p] st.kdof[q]) * Matrix.of ed.urd = 0 ∧
        Matrix.of Uv = Matrix.of ed.urd * Matrix.diagonal ed.lam ∧ Matrix.of Uv * Matrix.of ed.urinvv = 1 ∧
        Matrix.of ed.urd * Matrix.of ed.urinvv = 0 ∧ ∀ j, e.i * w - ed.lam j ≠ 0)
    (solRef : List (Dva α)) (href : colSU e.ref st uncReal eig F w = .ok solRef) :
    ∃ sol, colSU e st uncReal eig F w = .ok sol ∧ ∀ r, r < L.n →
      ((r ∉ L.rb ∨ e.inc.d = true) →
        ((List.range L.n).map fun c =>
          partStiff e.i w e.M e.rbDamping e.B e.K L.rb L.el L.rf r c * (rowOf sol c).d).sum = F r) ∧
      (r ∈ L.el → (rowOf sol r).v = e.i * w * (rowOf sol r).d ∧
        (rowOf sol r).a = -(w * w) * (rowOf sol r).d) ∧
      (r ∈ L.rf → (e.dispOnly = true → (rowOf sol r).v = 0 ∧ (rowOf sol r).a = 0) ∧
        (e.dispOnly = false → (rowOf sol r).v = e.i * w * (rowOf sol r).d ∧
          (rowOf sol r).a = -(w * w) * (rowOf sol r).d)) ∧
      (r ∈ L.rb →
        (e.inc.d = false → (rowOf sol r).d = 0) ∧ (e.inc.v = false → (rowOf sol r).v = 0) ∧
        (e.inc.a = false → (rowOf sol r).a = 0) ∧
        (e.inc.d = true → e.inc.v = true → (rowOf sol r).v = e.i * w * (rowOf sol r).d) ∧
        (e.inc.d = true → e.inc.a = true → (rowOf sol r).a = -(w * w) * (rowOf sol r).d) ∧
        (e.inc.v = true → e.inc.a = true → (rowOf sol r).a = e.i * w * (rowOf sol r).v)) := by
  obtain ⟨sol, hsol, hlen, hrows⟩ := colSU_options e L hrbg helg hperm uncReal huc st hst eig F w solRef href
  have href' : ∀ r, r < L.n →
      ((List.range L.n).map fun c =>
        partStiff e.i w e.M e.rbDamping e.B e.K L.rb L.el L.rf r c * (rowOf solRef c).d).sum = F r ∧
      (rowOf solRef r).v = e.i * w * (rowOf solRef r).d ∧
      (rowOf solRef r).a = -(w * w) * (rowOf solRef r).d :=
    colSU_solves e.ref hz L hrbg helg hperm uncReal huc st hst eig F w hw hi rfl rfl hmn
      hunc hcoup solRef href
  have hnd : (L.rb ++ L.el ++ L.rf).Nodup := hperm.nodup_iff.2 List.nodup_range
  have hnd1 := List.nodup_append.1 hnd
  have hnd2 := List.nodup_append.1 hnd1.1
  have hd1 : ∀ x ∈ L.rb, x ∉ L.el := fun x h1 h2 => hnd2.2.2 x h1 x h2 rfl
  have hd2 : ∀ x ∈ L.rb, x ∉ L.rf := fun x h1 h2 => hnd1.2.2 x (List.mem_append_left _ h1) x h2 rfl
  have hd3 : ∀ x ∈ L.el, x ∉ L.rf := fun x h1 h2 => hnd1.2.2 x (List.mem_append_right _ h1) x h2 rfl
  -- every row of the option column is the option row of the reference column
  have hrow : ∀ c, c < L.n → rowOf sol c = optionRow e.inc e.dispOnly L.rb L.rf c (rowOf solRef c) := by
    intro c hc
    have h1 := hrows c hc
    have hs : sol[c]? = some sol[c] := List.getElem?_eq_getElem (hlen ▸ hc)
    rw [hs] at h1
    cases hr : solRef[c]? with
    | none => rw [hr] at h1; cases h1
    | some x =>
      rw [hr] at h1
      simp only [Option.map_some, Option.some.injEq] at h1
      simp [rowOf, optRow, hs, hr, h1]
  refine ⟨sol, hsol, ?_⟩
  intro r hr
  obtain ⟨q1, q2, q3⟩ := href' r hr
  have hrr := hrow r hr
  refine ⟨?_, ?_, ?_, ?_⟩
  · intro hcond
    rw [← q1]
    congr 1
    apply List.map_congr_left
    intro c hc
    have hc' : c < L.n := List.mem_range.1 hc
    rw [hrow c hc', optionRow_d]
    by_cases hcrb : c ∈ L.rb
    · by_cases hdd : e.inc.d = true
      · simp [hcrb, hdd]
      · have hrnot : r ∉ L.rb := by
          rcases hcond with h | h
          · exact h
          · exact absurd h hdd
        have : partStiff e.i w e.M e.rbDamping e.B e.K L.rb L.el L.rf r c = 0 := by
          simp [partStiff, hrnot, hd1 c hcrb, hd2 c hcrb]
        simp [hcrb, hdd, this]
    · simp [hcrb]
  · intro hel
    have h1 : r ∉ L.rb := fun h => hd1 r h hel
    have h3 : r ∉ L.rf := hd3 r hel
    rw [hrr]
    simp only [optionRow, List.contains_eq_mem, h1, h3, decide_false, Bool.false_and, Bool.false_eq_true,
      if_false]
    exact ⟨q2, q3⟩
  · intro hrf
    have h1 : r ∉ L.rb := fun h => hd2 r h hrf
    rw [hrr]
    constructor
    · intro hdo
      simp [optionRow, h1, hrf, hdo]
    · intro hdo
      simp only [optionRow, List.contains_eq_mem, h1, hdo, decide_false, Bool.and_false, Bool.false_eq_true,
        if_false]
      exact ⟨q2, q3⟩
  · intro hrb
    rw [hrr]
    simp only [optionRow, List.contains_eq_mem, hrb, decide_true, if_true, applyIncrb]
    refine ⟨fun h => by simp [h], fun h => by simp [h], fun h => by simp [h], ?_, ?_, ?_⟩
    · intro h1 h2; simp only [h1, h2, if_true]; exact q2
    · intro h1 h2; simp only [h1, h2, if_true]; exact q3
    · intro h1 h2
      simp only [h1, h2, if_true]
      rw [q3, q2]
      rw [show e.i * w * (e.i * w * (rowOf solRef r).d) = (e.i * e.i) * (w * w) * (rowOf solRef r).d by ring, hi]
      ring

end opts

end PyYetiVerif.C02
