import PyYetiVerif.Props.C12
import PyYetiVerif.Lemmas.NasFloatBestChain
/-!
# C12, extension — "best precision": the emitted field against every other string of the grammar

Property theorems only.  A competitor is any well-formed field `g` of the emitted-field grammar
(`Spec/NasFloatField`: `[-] digit* . digit* [[D]±digit+]`, mantissa not necessarily normalised) of at
most `W` characters; fields are compared through the decimals they denote.

* fixed-notation rows and the final integer branches: the emitted field is a **nearest** one — no
  competitor of either sign, in fixed or scientific notation, is closer (slack 0);
* scientific branches: no competitor of the other sign, in fixed notation, or with an exponent part
  at least as long as the emitted one is closer by more than `10^(E-q)`, the slack of the two-stage
  rounding — attained (`sci_slack_attained`); competitors with a *shorter* exponent part and an
  un-normalised mantissa can be ten times closer (`unnormalised_mantissa_is_closer`): the
  formatters are best for the exponent they print ("the last digit the width allows for that sign
  and exponent"), not among all strings.
-/
namespace PyYetiVerif.C12
open PyYetiVerif.PyFloat PyYetiVerif.NasFloat PyYetiVerif.Generated.NasFloat

/-- **fixed-notation branches emit a nearest field.**  For a row satisfying `RowOK` (`5 ≤ W`), `k`
its number of integer digits, and every fraction `x` of the row's sign with `|x| ≥ 10^(k-1)`
(`≥ 10^-3` for the row below one): the branch emits `rjust W f.text` and **no** well-formed field of
at most `W` characters — either sign, fixed or scientific notation, normalised or not — denotes a
decimal closer to `x` than `f` does. -/
theorem fixed_branch_best_precision (W : Nat) (c : Sci) (neg : Bool) (r : Row) (hr : RowOK W neg r)
    (hW5 : 5 ≤ W) (x : Dbl) (hneg : x.neg = neg) (hd : 0 < x.den)
    (hlo : (10 : ℚ) ^ (if W - ((if neg then 1 else 0) + 1 + r.prec) = 0 then (-3 : ℤ)
      else ((W - ((if neg then 1 else 0) + 1 + r.prec) : ℕ) : ℤ) - 1) ≤ (x.num : ℚ) / x.den) :
    ∃ f : Fld, rowBody W c neg r x = rjust W f.text ∧
      ∀ g : Fld, g.wf = true → g.text.length ≤ W → |decRat f.dec - dblRat x| ≤ |decRat g.dec - dblRat x| := by
  have hr' := hr
  simp only [RowOK] at hr'
  obtain ⟨hfit, _, _, hp, hk3, hkind, _⟩ := hr'
  have hkind' : r.kind = 2 ∨ (r.kind = 3 ∧ neg = true) := by
    rcases hkind with h | h
    · exact Or.inl h
    · exact Or.inr ⟨h, (hk3.1 h).1⟩
  refine ⟨_, rowBody_shape W c neg r hp hkind' x hneg, ?_⟩
  intro g hwf hlen
  apply fixed_best W r.prec (W - ((if neg then 1 else 0) + 1 + r.prec)) neg _ (by
      cases neg <;> simp at hfit ⊢ <;> omega) (by
      intro h0
      cases neg <;> simp at hfit h0 ⊢ <;> omega) x hd hneg hlo g hwf hlen

/-- **the final integer branches emit a nearest field**: `dddddddd.` (`x ≥ 10^(W-2)`, below the
carry guard) and `-ddddddd.` (`|x| ≥ 10^(W-3)`) against every competitor, slack 0. -/
theorem last_branches_best_precision (W : Nat) (c : Sci) (hW : 3 ≤ W) (x : Dbl) (hd : 0 < x.den) :
    (x.neg = false → 2 * x.num < (2 * 10 ^ (W - 1) - 1) * x.den →
      (10 : ℚ) ^ (((W - 1 : ℕ) : ℤ) - 1) ≤ (x.num : ℚ) / x.den →
      ∃ f : Fld, lastPos W c (1, 1) x = rjust W f.text ∧
        ∀ g : Fld, g.wf = true → g.text.length ≤ W → |decRat f.dec - dblRat x| ≤ |decRat g.dec - dblRat x|) ∧
    (x.neg = true → 2 * x.num < (2 * 10 ^ (W - 2) - 1) * x.den → 4 ≤ W →
      (10 : ℚ) ^ (((W - 2 : ℕ) : ℤ) - 1) ≤ (x.num : ℚ) / x.den →
      ∃ f : Fld, lastNeg W c (1, W - 1) x = rjust W f.text ∧
        ∀ g : Fld, g.wf = true → g.text.length ≤ W → |decRat f.dec - dblRat x| ≤ |decRat g.dec - dblRat x|) := by
  constructor
  · intro hneg hg hlo
    obtain ⟨fp, hfp, hshape, _⟩ := lastPos_shape W c (by omega) x hneg hd hg
    refine ⟨_, hshape, fun g hwf hlen => ?_⟩
    exact int_best W (W - 1) false (by simp; omega) (by omega) x hd hneg hlo fp hfp g hwf hlen
  · intro hneg hg hW4 hlo
    obtain ⟨hshape, _⟩ := lastNeg_shape W c hW x hneg hd hg
    have hrabs : (roundInt x).natAbs = rheDiv x.num x.den := by
      unfold roundInt; simp [hneg]
    -- the rounded integer is at least one: the sign written is `-`
    have hge1 : 1 ≤ rheDiv x.num x.den := by
      apply rheDiv_ge _ _ 1 hd
      have h1 : (1 : ℚ) ≤ (10 : ℚ) ^ (((W - 2 : ℕ) : ℤ) - 1) := by
        apply one_le_zpow₀ (by norm_num)
        have : 2 ≤ W - 2 := by omega
        have : (2 : ℤ) ≤ ((W - 2 : ℕ) : ℤ) := by exact_mod_cast this
        omega
      have h2 : (1 : ℚ) ≤ (x.num : ℚ) / x.den := le_trans h1 hlo
      have hdq : (0 : ℚ) < x.den := by exact_mod_cast hd
      rw [le_div_iff₀ hdq] at h2
      have : ((1 * x.den : ℕ) : ℚ) ≤ (x.num : ℚ) := by push_cast; linarith
      exact_mod_cast this
    have hlt : roundInt x < 0 := by
      unfold roundInt; simp [hneg]; omega
    have hdec : decide (roundInt x < 0) = true := by simpa using hlt
    rw [hdec, hrabs] at hshape
    refine ⟨_, hshape, fun g hwf hlen => ?_⟩
    exact int_best W (W - 2) true (by simp; omega) (by omega) x hd hneg hlo [] (Or.inl rfl) g hwf hlen

/-! ## best precision over the dispatch -/

/-- the decidable side conditions of the dispatch-level statement hold for the tables extracted
from the source: the lower bound every fixed-notation row inherits from the failed test before it
is its own decade (`10^(k-1)`, `10^-3` at least for the row below one), and the bound that reaches
the final `else` is `10^(W-2)` resp. `10^(W-3)`. -/
theorem tables_best_ok : BestOK 8 pos8 neg8 ∧ BestOK 16 pos16 neg16 := by decide

/-- **`format_float_best_precision`** — over the if-chain dispatch, where the statement is clean.
For every non-zero fraction `x`: whenever `format_float8` / `format_float16` takes a
fixed-notation branch (`branchKind = 2, 3`) or its final `else` with `|x| < 10^(W-1)`
(`branchKind = 4`: the integers `dddddddd.` / `-ddddddd.`) — that is for
`10^-3 ≤ x < 10^(W-1) − ½` and `10^-2 ≤ −x < 10^(W-2) − ½` — the field returned is a **nearest**
field: no well-formed field of the grammar of at most `W` characters, of either sign, in fixed or
scientific notation, normalised or not, denotes a decimal closer to `x`.  (In the scientific and
mixed branches the statement carries a slack and a restriction on the competitors:
`sci_best_precision`, `sci_slack_attained`, `unnormalised_mantissa_is_closer`.) -/
theorem format_float_best_precision (x : Dbl) (hn : 0 < x.num) (hd : 0 < x.den) :
    ((branchKind pos8 neg8 x = 2 ∨ branchKind pos8 neg8 x = 3 ∨
        (branchKind pos8 neg8 x = 4 ∧ (x.neg = false → x.num < 10 ^ (8 - 1) * x.den))) →
      ∃ f : Fld, f.wf = true ∧ formatFloat8 x = rjust 8 f.text ∧
        ∀ g : Fld, g.wf = true → g.text.length ≤ 8 → |decRat f.dec - dblRat x| ≤ |decRat g.dec - dblRat x|) ∧
    ((branchKind pos16 neg16 x = 2 ∨ branchKind pos16 neg16 x = 3 ∨
        (branchKind pos16 neg16 x = 4 ∧ (x.neg = false → x.num < 10 ^ (16 - 1) * x.den))) →
      ∃ f : Fld, f.wf = true ∧ formatFloat16 x = rjust 16 f.text ∧
        ∀ g : Fld, g.wf = true → g.text.length ≤ 16 → |decRat f.dec - dblRat x| ≤ |decRat g.dec - dblRat x|) := by
  obtain ⟨h8, h16⟩ := tables_format_ok
  obtain ⟨b8, b16⟩ := tables_best_ok
  exact ⟨fun hk => formatFloat_best 8 sci8 pos8 neg8 posLast8 negLast8 (by norm_num) h8 b8 x hn hd hk,
    fun hk => formatFloat_best 16 sci16 pos16 neg16 posLast16 negLast16 (by norm_num) h16 b16 x hn hd hk⟩

/-- non-vacuity: which branch is taken — `1.5` and `-0.5` fixed notation, `1234567.4` and
`-123456.4` the final integers, `1e-5` the mixed branch, `1e20` scientific (final `else`, but not
below `10^7`). -/
example : branchKind pos8 neg8 ⟨false, 3, 2⟩ = 2 ∧ branchKind pos8 neg8 ⟨true, 1, 2⟩ = 3 ∧
    branchKind pos8 neg8 ⟨false, 12345674, 10⟩ = 4 ∧ branchKind pos8 neg8 ⟨true, 1234564, 10⟩ = 4 ∧
    branchKind pos8 neg8 ⟨false, 1, 100000⟩ = 1 ∧ branchKind pos8 neg8 ⟨false, 10 ^ 20, 1⟩ = 4 ∧
    ¬ ((10 : Nat) ^ 20 < 10 ^ (8 - 1) * 1) := by
  refine ⟨by decide +kernel, by decide +kernel, by decide +kernel, by decide +kernel, by decide +kernel,
    by decide +kernel, by decide⟩

/-- **scientific branches emit a nearest field up to the slack of the two-stage rounding.**  For
constants satisfying `SciOK`, every fraction `x` with `10^-999 ≤ |x| < 10^999` whose printed
exponent `E` is outside the fixed-notation range (`E ≤ -(2+m+L)` or `E ≥ W-σ-1`: where
`format_float8/16` use the scientific form), the emitted field `f` (exponent `E`) satisfies
`|f − x| ≤ |g − x| + 10^(E-q)` for every competitor `g` of at most `W` characters that is of the
other sign, in fixed notation, or has an exponent part of at least the `m + 1 + L` characters of
the emitted one. -/
theorem sci_best_precision (W : Nat) (c : Sci) (dm : Bool) (hc : SciOK W c (if dm then 1 else 0))
    (x : Dbl) (hn : 0 < x.num) (hd : 0 < x.den)
    (hlo : x.den ≤ 10 ^ 999 * x.num) (hhi : x.num < 10 ^ 999 * x.den)
    (hE : sciExp c x ≤ -(2 + (if dm then 1 else 0) + (natDigits (sciExp c x).natAbs).length : ℤ) ∨
      ((W : ℤ) - (if x.neg then 1 else 0) - 1 ≤ sciExp c x)) :
    ∃ f : Fld, f.wf = true ∧ sciCore W c (if dm then ['D'] else []) x = rjust W f.text ∧
      f.text.length ≤ W ∧ f.expVal = sciExp c x ∧
      ∀ g : Fld, g.wf = true → g.text.length ≤ W →
        SciComp x.neg ((if dm then 1 else 0) + 1 + (natDigits (sciExp c x).natAbs).length) g →
        |decRat f.dec - dblRat x| ≤ |decRat g.dec - dblRat x| + (10 : ℚ) ^ (sciExp c x - (c.ePrec : ℤ)) :=
  sci_best W c dm hc x hn hd hlo hhi hE

/-- **the slack is attained**: for `x = 12340499.99995` the first rounding (`%.11e`) is a tie that
goes up to `1.23405000000`, whose double lies above `1.23405`, so the second rounding gives
`1.2341+7`; the competitor `1.234+7` (same width class) is closer by exactly `10^(7-11)`. -/
theorem sci_slack_attained :
    let x : Dbl := ⟨false, 246809999999, 20000⟩
    let f : Fld := ⟨false, ['1'], "2341".toList, some ⟨false, false, ['7']⟩⟩
    let g : Fld := ⟨false, ['1'], "234".toList, some ⟨false, false, ['7']⟩⟩
    formatFloat8 x = rjust 8 f.text ∧ g.wf = true ∧ g.text.length ≤ 8 ∧
      SciComp x.neg (0 + 1 + (natDigits (sciExp sci8 x).natAbs).length) g ∧
      |decRat f.dec - dblRat x| = |decRat g.dec - dblRat x| + (10 : ℚ) ^ (sciExp sci8 x - (sci8.ePrec : ℤ)) := by
  intro x f g
  refine ⟨by decide +kernel, by decide, by decide, Or.inr (Or.inr (by decide +kernel)), ?_⟩
  have hE : sciExp sci8 x = 7 := by decide +kernel
  have hq : (sci8.ePrec : ℤ) = 11 := by decide
  have hf : decRat f.dec = 12341000 := by
    simp [f, Fld.dec, Fld.expVal, FExp.val, decOf, decRat, digitsVal]
  have hg : decRat g.dec = 12340000 := by
    simp [g, Fld.dec, Fld.expVal, FExp.val, decOf, decRat, digitsVal]
  have hx : dblRat x = 246809999999 / 20000 := by simp [x, dblRat]
  rw [hE, hq, hf, hg, hx]
  norm_num [abs_of_pos, abs_of_neg]

/-- **an un-normalised mantissa with a shorter exponent is closer**: `format_float8(1.2346e10)` is
`1.235+10` (error `4·10^6`), while `12346.+6` — eight characters of the same grammar, read by
`nas_sscanf` as `1.2346e10` — is exact.  The restriction of `sci_best_precision` to competitors
whose exponent part is at least as long is necessary. -/
theorem unnormalised_mantissa_is_closer :
    let x : Dbl := ⟨false, 12346000000, 1⟩
    let f : Fld := ⟨false, ['1'], "235".toList, some ⟨false, false, "10".toList⟩⟩
    let g : Fld := ⟨false, "12346".toList, [], some ⟨false, false, ['6']⟩⟩
    formatFloat8 x = rjust 8 f.text ∧ g.wf = true ∧ g.text.length = 8 ∧ g.neg = x.neg ∧
      decRat g.dec = dblRat x ∧ |decRat f.dec - dblRat x| = 4000000 ∧
      nasSscanf g.text true = .flt (toBits false 12346000000 1) := by
  intro x f g
  refine ⟨by decide +kernel, by decide, by decide, rfl, ?_, ?_, by decide +kernel⟩
  · simp [g, x, Fld.dec, Fld.expVal, FExp.val, decOf, decRat, dblRat, digitsVal]
  · have hf : decRat f.dec = 12350000000 := by
      simp [f, Fld.dec, Fld.expVal, FExp.val, decOf, decRat, digitsVal]
    have hx : dblRat x = 12346000000 := by simp [x, dblRat]
    rw [hf, hx]; norm_num

/-- non-vacuity of `fixed_branch_best_precision`: the `[1, 10)` row of the 8-wide table at
`x = 9.9999996` satisfies the hypotheses. -/
example : ∃ r ∈ pos8, ∃ x : Dbl, RowOK 8 false r ∧ x.neg = false ∧ 0 < x.den ∧
    (10 : ℚ) ^ (if 8 - ((if false then 1 else 0) + 1 + r.prec) = 0 then (-3 : ℤ)
      else ((8 - ((if false then 1 else 0) + 1 + r.prec) : ℕ) : ℤ) - 1) ≤ (x.num : ℚ) / x.den := by
  refine ⟨⟨10, 1, true, 6, 2, 0, 1⟩, by decide, ⟨false, 99999996, 10000000⟩, by decide, rfl, by decide, ?_⟩
  norm_num

/-- non-vacuity of `sci_best_precision` and `last_branches_best_precision`: `x = 12340499.99995`
satisfies the hypotheses of the first (its printed exponent `7` is `W − σ − 1`), `x = 1234567.4` and
`x = -123456.4` those of the second. -/
example : (∃ x : Dbl, 0 < x.num ∧ 0 < x.den ∧ x.den ≤ 10 ^ 999 * x.num ∧ x.num < 10 ^ 999 * x.den ∧
      ((8 : ℤ) - (if x.neg then 1 else 0) - 1 ≤ sciExp sci8 x)) ∧
    (∃ x : Dbl, x.neg = false ∧ 0 < x.den ∧ 2 * x.num < (2 * 10 ^ (8 - 1) - 1) * x.den ∧
      (10 : ℚ) ^ (((8 - 1 : ℕ) : ℤ) - 1) ≤ (x.num : ℚ) / x.den) ∧
    (∃ x : Dbl, x.neg = true ∧ 0 < x.den ∧ 2 * x.num < (2 * 10 ^ (8 - 2) - 1) * x.den ∧
      (10 : ℚ) ^ (((8 - 2 : ℕ) : ℤ) - 1) ≤ (x.num : ℚ) / x.den) := by
  refine ⟨⟨⟨false, 246809999999, 20000⟩, by decide, by decide, by decide +kernel, by decide +kernel, ?_⟩,
    ⟨⟨false, 12345674, 10⟩, rfl, by decide, by decide, by norm_num⟩,
    ⟨⟨true, 1234564, 10⟩, rfl, by decide, by decide, by norm_num⟩⟩
  have hE : sciExp sci8 ⟨false, 246809999999, 20000⟩ = 7 := by decide +kernel
  rw [hE]; norm_num

end PyYetiVerif.C12
