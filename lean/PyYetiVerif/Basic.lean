def hello := "world"
