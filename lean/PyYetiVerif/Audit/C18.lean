import PyYetiVerif.Props.C18
import PyYetiVerif.Props.C18Up
import PyYetiVerif.Props.C18Idx
import PyYetiVerif.Props.C18Xyz
import PyYetiVerif.Props.C18Tran
import PyYetiVerif.Props.C18Ulvs
import PyYetiVerif.Props.C18Prt
import PyYetiVerif.Props.C18Cyc
import PyYetiVerif.Props.C18Tran0
import PyYetiVerif.Props.C18TranM
import PyYetiVerif.Props.C18Assoc
import PyYetiVerif.Props.C18Shapes
#print axioms PyYetiVerif.C18.base_sets_disjoint
#print axioms PyYetiVerif.C18.superset_is_union
#print axioms PyYetiVerif.C18.superset_is_union_bitwise
#print axioms PyYetiVerif.C18.user_sets_separate
#print axioms PyYetiVerif.C18.inSet_subword
#print axioms PyYetiVerif.C18.table_partition
#print axioms PyYetiVerif.C18.mksetpv_refuses_iff
#print axioms PyYetiVerif.C18.mksetpv_spec
#print axioms PyYetiVerif.C18.mksetpv_named
#print axioms PyYetiVerif.C18.expanddof_digits
#print axioms PyYetiVerif.C18.expanddof2_spec
#print axioms PyYetiVerif.C18.lookup_sound
#print axioms PyYetiVerif.C18.lookup_complete
#print axioms PyYetiVerif.C18.mkdofpv_strict_iff
#print axioms PyYetiVerif.C18.mkdofpv_spec
#print axioms PyYetiVerif.C18.mkdofpv_positions
#print axioms PyYetiVerif.C18.mkdofpv_set
#print axioms PyYetiVerif.C18.mat_intersect_spec
#print axioms PyYetiVerif.C18.find_subseq_spec
#print axioms PyYetiVerif.C18.list_intersect_spec
#print axioms PyYetiVerif.C18.flippv_spec
#print axioms PyYetiVerif.C18.index2bool_spec
#print axioms PyYetiVerif.C18.normIndex_spec
#print axioms PyYetiVerif.C18.find_vals_spec
#print axioms PyYetiVerif.C18.find_rows_spec
#print axioms PyYetiVerif.C18.find_unique_spec
#print axioms PyYetiVerif.C18.find_duplicates_spec
#print axioms PyYetiVerif.C18.index2slice_cases
#print axioms PyYetiVerif.C18.index2slice_spec
#print axioms PyYetiVerif.C18.merge_lists_spec
#print axioms PyYetiVerif.C18.merge_lists_inserts
#print axioms PyYetiVerif.C18.mkusetmask_plus
#print axioms PyYetiVerif.C18.mksetpv_plus
#print axioms PyYetiVerif.C18.make_uset_sets_partial
#print axioms PyYetiVerif.C18.make_uset_sets
#print axioms PyYetiVerif.C18.make_uset_accepts
#print axioms PyYetiVerif.C18.make_uset_split_rows
#print axioms PyYetiVerif.C18.make_uset_ids
#print axioms PyYetiVerif.C18.make_uset_coords_partial
#print axioms PyYetiVerif.C18.upasetpv_spec
#print axioms PyYetiVerif.C18.scatter_spec
#print axioms PyYetiVerif.C18.upqsetpv_length
#print axioms PyYetiVerif.C18.upqsetpv_one_upstream
#print axioms PyYetiVerif.C18.qupOwn_spec
#print axioms PyYetiVerif.C18.upqsetpv_fuel_stable
#print axioms PyYetiVerif.C18.upqsetpv_fuel_suffices
#print axioms PyYetiVerif.C18.upqsetpv_cycle_diverges
#print axioms PyYetiVerif.C18.cyclic_not_acyclic
#print axioms PyYetiVerif.C18.QConn_iff
#print axioms PyYetiVerif.C18.upqsetpv_spec
#print axioms PyYetiVerif.C18.canFlag_of_flagged
#print axioms PyYetiVerif.C18.separate_of_check
#print axioms PyYetiVerif.C18.upqIdx_eq_upasetpv
#print axioms PyYetiVerif.C18.upasetpv_perm
#print axioms PyYetiVerif.C18.mat_intersect_order
#print axioms PyYetiVerif.C18.mat_intersect_keep1
#print axioms PyYetiVerif.C18.mat_intersect_keep2
#print axioms PyYetiVerif.C18.mat_intersect_keep0
#print axioms PyYetiVerif.C18.mat_intersect_keep_other
#print axioms PyYetiVerif.C18.findse_spec
#print axioms PyYetiVerif.C18.findse_find?
#print axioms PyYetiVerif.C18.nodeIds_spec
#print axioms PyYetiVerif.C18.nodeIds_make
#print axioms PyYetiVerif.C18.xyz_triple_exact
#print axioms PyYetiVerif.C18.find_xyz_triples_exact
#print axioms PyYetiVerif.C18.formtran_partition_identity
#print axioms PyYetiVerif.C18.formtran_aset_identity
#print axioms PyYetiVerif.C18.formtran_columns_are_target_set
#print axioms PyYetiVerif.C18.ulvsPath_spec
#print axioms PyYetiVerif.C18.ulvsLoop_chain
#print axioms PyYetiVerif.C18.formulvs_chain_is_product
#print axioms PyYetiVerif.C18.formulvs_noshortcut
#print axioms PyYetiVerif.C18.formulvs_cases
#print axioms PyYetiVerif.C18.formdrm_is_rows_of_formtran
#print axioms PyYetiVerif.C18.formdrm_same_se
#print axioms PyYetiVerif.C18.addulvs_consistent
#print axioms PyYetiVerif.C18.memberCol_spec
#print axioms PyYetiVerif.C18.usetprt_table_is_partition_listing
#print axioms PyYetiVerif.C18.mask_expression_is_union
#print axioms PyYetiVerif.C18.mask_expression_members
#print axioms PyYetiVerif.C18.mask_expression_append
#print axioms PyYetiVerif.C18.mask_expression_absorbs
#print axioms PyYetiVerif.C18.mkdofpv_expression
#print axioms PyYetiVerif.C18.find_subseq_mem_iff
#print axioms PyYetiVerif.C18.find_subseq_errors
#print axioms PyYetiVerif.C18.find_rows_other_length
#print axioms PyYetiVerif.C18.mat_intersect_duplicates
#print axioms PyYetiVerif.C18.index_helpers_refuse_together
#print axioms PyYetiVerif.C18.upqsetpv_never_returns_of_progress
#print axioms PyYetiVerif.C18.upqsetpv_cyclic_diverges
#print axioms PyYetiVerif.C18.formtran0_gset
#print axioms PyYetiVerif.C18.formtran0_phg
#print axioms PyYetiVerif.C18.formtran0_pha
#print axioms PyYetiVerif.C18.formtran_mset_composition
#print axioms PyYetiVerif.C18.dotChain_append
#print axioms PyYetiVerif.C18.ulvsPath_mono
#print axioms PyYetiVerif.C18.ulvsPath_split
#print axioms PyYetiVerif.C18.iddofG_eq_iddofOf
#print axioms PyYetiVerif.C18.iddofG_is_gset_rows
#print axioms PyYetiVerif.C18.dot_assoc_rect
#print axioms PyYetiVerif.C18.dotChain_one_append
#print axioms PyYetiVerif.C18.ShapesAgree_rect
#print axioms PyYetiVerif.C18.ShapesAgree_chain_ok
#print axioms PyYetiVerif.C18.formulvs_path_composes
#print axioms PyYetiVerif.C18.ulvsLevels_complete
#print axioms PyYetiVerif.C18.ulvsLevels_sound
#print axioms PyYetiVerif.C18.formulvs_path_composes_of_test
#print axioms PyYetiVerif.C18.formulvs_path_composes_rect
#print axioms PyYetiVerif.C18.WF_iff_wfB
#print axioms PyYetiVerif.C18.formtranUpWith_rect
#print axioms PyYetiVerif.C18.formtran0With_rect
#print axioms PyYetiVerif.C18.formtran_rect
#print axioms PyYetiVerif.C18.ulvsLevel_rect
#print axioms PyYetiVerif.C18.formulvs_path_composes_wf
