import PyYetiVerif.Props.C08
#print axioms PyYetiVerif.C08.gen_invariant
#print axioms PyYetiVerif.C08.visible_eq_batch
#print axioms PyYetiVerif.C08.history_independent
#print axioms PyYetiVerif.C08.finalize_eq_batch
#print axioms PyYetiVerif.C08.f2x_is_unit_addon
#print axioms PyYetiVerif.C08.f2x_order0
#print axioms PyYetiVerif.C08.api_refines
#print axioms PyYetiVerif.C08.cdf_cache_sound
#print axioms PyYetiVerif.C08.cdf_eq_batch
#print axioms PyYetiVerif.C08.cdf_alpha_identity
