import PyYetiVerif.Props.C08
import PyYetiVerif.Props.C08Init
import PyYetiVerif.Props.C08Inst
import PyYetiVerif.Props.C08Api
import PyYetiVerif.Props.C08Branches
#print axioms PyYetiVerif.C08.gen_invariant
#print axioms PyYetiVerif.C08.visible_eq_batch
#print axioms PyYetiVerif.C08.history_independent
#print axioms PyYetiVerif.C08.finalize_eq_batch
#print axioms PyYetiVerif.C08.f2x_is_unit_addon
#print axioms PyYetiVerif.C08.f2x_order0
#print axioms PyYetiVerif.C08.api_refines
#print axioms PyYetiVerif.C08.cdf_cache_sound
#print axioms PyYetiVerif.C08.cdf_eq_batch
#print axioms PyYetiVerif.C08.cdf_alpha_identity
#print axioms PyYetiVerif.C08.first_column_cases
#print axioms PyYetiVerif.C08.gen_first_column_eq_batch
#print axioms PyYetiVerif.C08.gen_start_eq_batch_start
#print axioms PyYetiVerif.C08.static_ic_is_equilibrium
#print axioms PyYetiVerif.C08.static_ic_zero_accel
#print axioms PyYetiVerif.C08.gen_eq_tsolve_all_options
#print axioms PyYetiVerif.C08.rf_rows_static_every_step
#print axioms PyYetiVerif.C08.finalize_accel_eom
#print axioms PyYetiVerif.C08.finalize_accel_eom_cdf
#print axioms PyYetiVerif.C08.finalize_accel_rb
#print axioms PyYetiVerif.C08.finalize_partial_history
#print axioms PyYetiVerif.C08.unc_step_is_instance
#print axioms PyYetiVerif.C08.exp2_step_is_instance
#print axioms PyYetiVerif.C08.exp2Lin_addOn
#print axioms PyYetiVerif.C08.exp2_gen_eq_batch
#print axioms PyYetiVerif.C08.complex_step_is_instance
#print axioms PyYetiVerif.C08.cplxLin_addOn
#print axioms PyYetiVerif.C08.complex_gen_eq_batch
#print axioms PyYetiVerif.C08.complex_recovery_is_real_part
#print axioms PyYetiVerif.C08.conj_pair_sum_real
#print axioms PyYetiVerif.C08.api_sequence_refines
#print axioms PyYetiVerif.C08.spec_finalize_is_tsolve
#print axioms PyYetiVerif.C08.latest_generator_wins
#print axioms PyYetiVerif.C08.second_finalize_fails
#print axioms PyYetiVerif.C08.resumed_generator_unaffected
#print axioms PyYetiVerif.C08.generated_branches_ok
#print axioms PyYetiVerif.C08.request_writes_own_column
