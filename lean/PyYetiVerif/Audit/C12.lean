import PyYetiVerif.Props.C12
import PyYetiVerif.Props.C12Multi
import PyYetiVerif.Props.C12Acc
import PyYetiVerif.Props.C12Best
import PyYetiVerif.Props.C12Foreign
import PyYetiVerif.Props.C12Comments
#print axioms PyYetiVerif.C12.table_rows_ok
#print axioms PyYetiVerif.C12.fixed_branch_width
#print axioms PyYetiVerif.C12.fixed_branch_width_rat
#print axioms PyYetiVerif.C12.fixed_branch_width_tables
#print axioms PyYetiVerif.C12.sscanf_parses_field
#print axioms PyYetiVerif.C12.sscanf_parses_recognised
#print axioms PyYetiVerif.C12.fixed_branch_accuracy
#print axioms PyYetiVerif.C12.fixed_precision_maximal
#print axioms PyYetiVerif.C12.sci_consts_ok
#print axioms PyYetiVerif.C12.sci_width_accuracy
#print axioms PyYetiVerif.C12.sci_width
#print axioms PyYetiVerif.C12.carry_guard_sound
#print axioms PyYetiVerif.C12.int_field_roundtrip
#print axioms PyYetiVerif.C12.blank_field_roundtrip
#print axioms PyYetiVerif.C12.line_roundtrip
#print axioms PyYetiVerif.C12.card_line_roundtrip_partial
#print axioms PyYetiVerif.C12.str_field_roundtrip
#print axioms PyYetiVerif.C12.card_fields_ok
#print axioms PyYetiVerif.C12.card_roundtrip_small
#print axioms PyYetiVerif.C12.card_roundtrip_large
#print axioms PyYetiVerif.C12.card_roundtrip_comma
#print axioms PyYetiVerif.C12.card_fixed_comma_agree
#print axioms PyYetiVerif.C12.small_branch_pos
#print axioms PyYetiVerif.C12.small_branch_neg
#print axioms PyYetiVerif.C12.last_branches
#print axioms PyYetiVerif.C12.tables_format_ok
#print axioms PyYetiVerif.C12.format_float_total
#print axioms PyYetiVerif.C12.reader_options_default
#print axioms PyYetiVerif.C12.rdcards_general_is_rdcards
#print axioms PyYetiVerif.C12.rdcards_multi
#print axioms PyYetiVerif.C12.rdcards_multi_files
#print axioms PyYetiVerif.C12.written_cards_are_blocks
#print axioms PyYetiVerif.C12.rdcards_assembled
#print axioms PyYetiVerif.C12.array_shape
#print axioms PyYetiVerif.C12.dict_keys_and_last
#print axioms PyYetiVerif.C12.expandtabs_cells
#print axioms PyYetiVerif.C12.tab_line_reads_as_fixed
#print axioms PyYetiVerif.C12.fsearch_first_line
#print axioms PyYetiVerif.C12.wtcard_type_dispatch
#print axioms PyYetiVerif.C12.format_float_accuracy
#print axioms PyYetiVerif.C12.format_bound_pieces
#print axioms PyYetiVerif.C12.mixed_branch_picks
#print axioms PyYetiVerif.C12.mixed_branch_reads_as_sci
#print axioms PyYetiVerif.C12.fixed_branch_best_precision
#print axioms PyYetiVerif.C12.last_branches_best_precision
#print axioms PyYetiVerif.C12.sci_best_precision
#print axioms PyYetiVerif.C12.sci_slack_attained
#print axioms PyYetiVerif.C12.unnormalised_mantissa_is_closer
#print axioms PyYetiVerif.C12.mixed_branch_picks_neg
#print axioms PyYetiVerif.C12.kept_comments_complete
#print axioms PyYetiVerif.C12.rdcards_foreign_block
#print axioms PyYetiVerif.C12.tables_best_ok
#print axioms PyYetiVerif.C12.format_float_best_precision
#print axioms PyYetiVerif.C12.written_card_lines_no_match
#print axioms PyYetiVerif.C12.rdcards_foreign_written
#print axioms PyYetiVerif.C12.rdcards_foreign_boundary
#print axioms PyYetiVerif.C12.rdcards_written_cards
#print axioms PyYetiVerif.C12.rdcards_assembled_written
#print axioms PyYetiVerif.C12.kept_comments_placement
#print axioms PyYetiVerif.C12.kept_comments_rules
#print axioms PyYetiVerif.C12.kept_comments_foreign_card
#print axioms PyYetiVerif.C12.kept_comments_erase
