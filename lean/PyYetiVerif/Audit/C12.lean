import PyYetiVerif.Props.C12
#print axioms PyYetiVerif.C12.table_rows_ok
#print axioms PyYetiVerif.C12.fixed_branch_width
#print axioms PyYetiVerif.C12.fixed_branch_width_rat
#print axioms PyYetiVerif.C12.fixed_branch_width_tables
#print axioms PyYetiVerif.C12.sscanf_parses_field
#print axioms PyYetiVerif.C12.sscanf_parses_recognised
#print axioms PyYetiVerif.C12.fixed_branch_accuracy
#print axioms PyYetiVerif.C12.fixed_precision_maximal
#print axioms PyYetiVerif.C12.sci_consts_ok
#print axioms PyYetiVerif.C12.sci_width_accuracy
#print axioms PyYetiVerif.C12.sci_width
#print axioms PyYetiVerif.C12.carry_guard_sound
#print axioms PyYetiVerif.C12.int_field_roundtrip
#print axioms PyYetiVerif.C12.blank_field_roundtrip
#print axioms PyYetiVerif.C12.line_roundtrip
#print axioms PyYetiVerif.C12.card_line_roundtrip_partial
