import PyYetiVerif.Props.C09
#print axioms PyYetiVerif.C09.schedule_independent
#print axioms PyYetiVerif.C09.parallel_eq_serial
#print axioms PyYetiVerif.C09.final_is_solo
#print axioms PyYetiVerif.C09.footprint_gives_hyp
#print axioms PyYetiVerif.C09.generated_footprints_ok
#print axioms PyYetiVerif.C09.generated_workers_complete
