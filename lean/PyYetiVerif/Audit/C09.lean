import PyYetiVerif.Props.C09
import PyYetiVerif.Props.C09Parent
#print axioms PyYetiVerif.C09.schedule_independent
#print axioms PyYetiVerif.C09.parallel_eq_serial
#print axioms PyYetiVerif.C09.final_is_solo
#print axioms PyYetiVerif.C09.footprint_gives_hyp
#print axioms PyYetiVerif.C09.generated_footprints_ok
#print axioms PyYetiVerif.C09.generated_workers_complete
#print axioms PyYetiVerif.C09.generated_decision_is_std
#print axioms PyYetiVerif.C09.generated_helpers_std
#print axioms PyYetiVerif.C09.auto_rule
#print axioms PyYetiVerif.C09.yes_rule
#print axioms PyYetiVerif.C09.no_rule
#print axioms PyYetiVerif.C09.invalid_option_raises
#print axioms PyYetiVerif.C09.pool_size_bounds
#print axioms PyYetiVerif.C09.pool_size_ignores_task_count
#print axioms PyYetiVerif.C09.generated_parent_ok
#print axioms PyYetiVerif.C09.generated_sites_complete
#print axioms PyYetiVerif.C09.generated_serial_is_worker_loop
#print axioms PyYetiVerif.C09.tasks_partition_outputs
#print axioms PyYetiVerif.C09.generated_outputs_partitioned
#print axioms PyYetiVerif.C09.assembly_eq_serial
#print axioms PyYetiVerif.C09.generated_srs_owner
#print axioms PyYetiVerif.C09.srs_hyp
#print axioms PyYetiVerif.C09.srs_final_cells
#print axioms PyYetiVerif.C09.peak_applied_once
#print axioms PyYetiVerif.C09.getresp_histories_eq_serial
#print axioms PyYetiVerif.C09.srs_routine_eq_serial
