import PyYetiVerif.Props.C10
#print axioms PyYetiVerif.C10.seq_first_selected
#print axioms PyYetiVerif.C10.seq_alternates
#print axioms PyYetiVerif.C10.seq_extremes_within_two_stol
#print axioms PyYetiVerif.C10.seq_end_rule_counterexample
#print axioms PyYetiVerif.C10.seq_unbound_counterexample
#print axioms PyYetiVerif.C10.default_first_selected
#print axioms PyYetiVerif.C10.default_alternates_partial
#print axioms PyYetiVerif.C10.default_extremes_partial
#print axioms PyYetiVerif.C10.default_drift_counterexample
#print axioms PyYetiVerif.C10.variants_differ_counterexample
#print axioms PyYetiVerif.C10.digitize_spec
#print axioms PyYetiVerif.C10.binify_places
#print axioms PyYetiVerif.C10.binify_conserves
#print axioms PyYetiVerif.C10.cum_count_antitone
#print axioms PyYetiVerif.C10.count_col0_total
#print axioms PyYetiVerif.C10.bincount_sum_total
#print axioms PyYetiVerif.C10.G2_ge_G1
