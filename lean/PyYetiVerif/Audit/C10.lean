import PyYetiVerif.Props.C10
import PyYetiVerif.Props.C10Fde
import PyYetiVerif.Props.C10Bins
import PyYetiVerif.Props.C10Labels
import PyYetiVerif.Props.C10Psd
import PyYetiVerif.Props.C10Locate
import PyYetiVerif.Props.C10Cell
import PyYetiVerif.Props.C10Dups
import PyYetiVerif.Props.C10Totals
import PyYetiVerif.Props.C10G2Inf
#print axioms PyYetiVerif.C10.seq_first_selected
#print axioms PyYetiVerif.C10.seq_alternates
#print axioms PyYetiVerif.C10.default_first_selected
#print axioms PyYetiVerif.C10.digitize_spec
#print axioms PyYetiVerif.C10.binify_places
#print axioms PyYetiVerif.C10.binify_conserves
#print axioms PyYetiVerif.C10.cum_count_antitone
#print axioms PyYetiVerif.C10.count_col0_total
#print axioms PyYetiVerif.C10.bincount_sum_total
#print axioms PyYetiVerif.C10.G2_ge_G1
#print axioms PyYetiVerif.C10.auto_bins_cover
#print axioms PyYetiVerif.C10.binify_auto_conserves
#print axioms PyYetiVerif.C10.amax_le_srs
#print axioms PyYetiVerif.C10.bincount_spec
#print axioms PyYetiVerif.C10.damage_def
#print axioms PyYetiVerif.C10.damage_per_cycle
#print axioms PyYetiVerif.C10.table_scaling
#print axioms PyYetiVerif.C10.test_damage_positive
#print axioms PyYetiVerif.C10.test_variance_reproduces_internal
#print axioms PyYetiVerif.C10.test_variance_reproduces
#print axioms PyYetiVerif.C10.G_b_monotone_in_damage
#print axioms PyYetiVerif.C10.G2_ge_G1_loop
#print axioms PyYetiVerif.C10.psd_quadratic_scaling
#print axioms PyYetiVerif.C10.cycle_table_scaling
#print axioms PyYetiVerif.C10.psd_quadratic_scaling_signal
#print axioms PyYetiVerif.C10.digitize_eq_iff
#print axioms PyYetiVerif.C10.explicit_bins_range
#print axioms PyYetiVerif.C10.binify_drops_uncovered
#print axioms PyYetiVerif.C10.binify_conserves_2d
#print axioms PyYetiVerif.C10.binify_explicit_bins_spec
#print axioms PyYetiVerif.C10.roundHalfEven_close
#print axioms PyYetiVerif.C10.labels_distinct_of_gap
#print axioms PyYetiVerif.C10.label_collision_example
#print axioms PyYetiVerif.C10.getLabels_length
#print axioms PyYetiVerif.C10.binify_packaging
#print axioms PyYetiVerif.C10.sigcount_is_composition
#print axioms PyYetiVerif.C10.sigcount_auto_conserves
#print axioms PyYetiVerif.C10.binamps_formula
#print axioms PyYetiVerif.C10.count_is_upper_cumulative
#print axioms PyYetiVerif.C10.counts_antitone
#print axioms PyYetiVerif.C10.bincount_diff
#print axioms PyYetiVerif.C10.psd_G_formulas
#print axioms PyYetiVerif.C10.psd_inverse_in_Q
#print axioms PyYetiVerif.C10.resp_switch_G1_G2
#print axioms PyYetiVerif.C10.fdeFreq_neg
#print axioms PyYetiVerif.C10.psd_quadratic_scaling_full
#print axioms PyYetiVerif.C10.psd_quadratic_scaling_input
#print axioms PyYetiVerif.C10.find_unique_spec
#print axioms PyYetiVerif.C10.find_unique_length
#print axioms PyYetiVerif.C10.findap_uses_find_unique
#print axioms PyYetiVerif.C10.find_unique_boundary_example
#print axioms PyYetiVerif.C10.default_alternates
#print axioms PyYetiVerif.C10.default_extremes
#print axioms PyYetiVerif.C10.default_total
#print axioms PyYetiVerif.C10.default_fast_path_is_find_unique
#print axioms PyYetiVerif.C10.variants_agree
#print axioms PyYetiVerif.C10.seq_total
#print axioms PyYetiVerif.C10.seq_extremes
#print axioms PyYetiVerif.C10.fixed_F4_example
#print axioms PyYetiVerif.C10.fixed_F14_F22_F23_examples
#print axioms PyYetiVerif.C10.var_test_is_documented_variance
#print axioms PyYetiVerif.C10.binify_cell_sum
#print axioms PyYetiVerif.C10.binify_cell_sum_unguarded
#print axioms PyYetiVerif.C10.bins_disjoint
#print axioms PyYetiVerif.C10.binify_explicit_is_guarded
#print axioms PyYetiVerif.C10.binify_explicit_cell_sum
#print axioms PyYetiVerif.C10.binify_auto_cell_sum
#print axioms PyYetiVerif.C10.find_duplicates_eq_spec
#print axioms PyYetiVerif.C10.find_duplicates_length
#print axioms PyYetiVerif.C10.find_duplicates_neg_tol
#print axioms PyYetiVerif.C10.find_duplicates_example
#print axioms PyYetiVerif.C10.find_duplicates_iff
#print axioms PyYetiVerif.C10.one_axis_partition
#print axioms PyYetiVerif.C10.binify_total_from_cells
#print axioms PyYetiVerif.C10.table_sum_eq_cells
#print axioms PyYetiVerif.C10.binify_conserves_2d_from_cells
#print axioms PyYetiVerif.C10.binify_uncovered_in_no_cell
#print axioms PyYetiVerif.C10.G2_ge_G1_loop_full
#print axioms PyYetiVerif.C10.g2maxX_eq_g2max_of_lt
#print axioms PyYetiVerif.C10.g2maxX_inf_example
#print axioms PyYetiVerif.C10.find_duplicates_monotone_tol
