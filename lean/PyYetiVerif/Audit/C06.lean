import PyYetiVerif.Props.C06
#print axioms PyYetiVerif.C06.cgmass_recovers
#print axioms PyYetiVerif.C06.cgmass_recovers_general
#print axioms PyYetiVerif.C06.rbmove_comp
#print axioms PyYetiVerif.C06.rbmove_rbgeom
#print axioms PyYetiVerif.C06.reorder_pv_perm
#print axioms PyYetiVerif.C06.reorder_perm
#print axioms PyYetiVerif.C06.reorder_pencil
#print axioms PyYetiVerif.C06.uset_rank_correct
#print axioms PyYetiVerif.C06.convert_inverse
#print axioms PyYetiVerif.C06.convert_congruence
#print axioms PyYetiVerif.C06.convert_pencil
#print axioms PyYetiVerif.C06.stiffness_rb_eq_geometry
#print axioms PyYetiVerif.C06.grounding_iff
#print axioms PyYetiVerif.C06.effmass_total
#print axioms PyYetiVerif.C06.cbtf_satisfies_eom
