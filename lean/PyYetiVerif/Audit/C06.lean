import PyYetiVerif.Props.C06
import PyYetiVerif.Props.C06b
import PyYetiVerif.Props.C06c
import PyYetiVerif.Props.C06d
import PyYetiVerif.Props.C06e
import PyYetiVerif.Props.C06f
import PyYetiVerif.Props.C06g
#print axioms PyYetiVerif.C06.cgmass_recovers
#print axioms PyYetiVerif.C06.cgmass_recovers_general
#print axioms PyYetiVerif.C06.rbmove_comp
#print axioms PyYetiVerif.C06.rbmove_rbgeom
#print axioms PyYetiVerif.C06.reorder_pv_perm
#print axioms PyYetiVerif.C06.reorder_perm
#print axioms PyYetiVerif.C06.reorder_pencil
#print axioms PyYetiVerif.C06.uset_rank_correct
#print axioms PyYetiVerif.C06.convert_inverse
#print axioms PyYetiVerif.C06.convert_congruence
#print axioms PyYetiVerif.C06.convert_pencil
#print axioms PyYetiVerif.C06.stiffness_rb_eq_geometry
#print axioms PyYetiVerif.C06.grounding_iff
#print axioms PyYetiVerif.C06.effmass_total
#print axioms PyYetiVerif.C06.cbtf_satisfies_eom
#print axioms PyYetiVerif.C06.guyan_preserves_eigenpairs
#print axioms PyYetiVerif.C06.guyanK_eq_blocks
#print axioms PyYetiVerif.C06.psiResid_eq_blocks
#print axioms PyYetiVerif.C06.guyanExpand_rows
#print axioms PyYetiVerif.C06.null_trim_sound
#print axioms PyYetiVerif.C06.nullExpand_rows
#print axioms PyYetiVerif.C06.coordchk_trim_sound
#print axioms PyYetiVerif.C06.trimRef_spec
#print axioms PyYetiVerif.C06.rbdispchk_recovers_coords
#print axioms PyYetiVerif.C06.rbdispchk_recovers_grid
#print axioms PyYetiVerif.C06.coordchk_coords_local
#print axioms PyYetiVerif.C06.net_force_is_resultant
#print axioms PyYetiVerif.C06.net_drm_is_resultant
#print axioms PyYetiVerif.C06.net_force_is_resultant_local
#print axioms PyYetiVerif.C06.rbmult_eq_mul
#print axioms PyYetiVerif.C06.cbtf_static_limit
#print axioms PyYetiVerif.C06.cbtfStaticFrc_eq
#print axioms PyYetiVerif.C06.net_ifltm_is_interface_resultant
#print axioms PyYetiVerif.C06.net_ifltm_units
#print axioms PyYetiVerif.C06.rbe3_normal_reproduces
#print axioms PyYetiVerif.C06.net_ifatm_is_rb_acceleration_of_interface
#print axioms PyYetiVerif.C06.resultant_force_ref_indep
#print axioms PyYetiVerif.C06.cgatm_translation_rows_are_cg_acceleration
#print axioms PyYetiVerif.C06.cgatm_rotation_rows_are_moment_about_offset
#print axioms PyYetiVerif.C06.cgatm_rotation_rows_reference_counterexample
#print axioms PyYetiVerif.C06.cglf_is_weight_normalised
#print axioms PyYetiVerif.C06.cglf_moment_rows_match_shear
#print axioms PyYetiVerif.C06.tsc2lv_blocks
#print axioms PyYetiVerif.C06.mk_net_drms_fields
#print axioms PyYetiVerif.C06.eigh_spec_charpoly
#print axioms PyYetiVerif.C06.principal_inertias_invariant
#print axioms PyYetiVerif.C06.principal_inertias_ref_indep
#print axioms PyYetiVerif.C06.rotated_mass_blocks
#print axioms PyYetiVerif.C06.principal_gyr_eq
#print axioms PyYetiVerif.C06.eighResid_spec
#print axioms PyYetiVerif.C06.find_xyz_triples_segs
#print axioms PyYetiVerif.C06.rbScale2_grids
#print axioms PyYetiVerif.C06.rbmultchk_scale_and_coords
#print axioms PyYetiVerif.C06.rbmultchk_flags_nonrigid
#print axioms PyYetiVerif.C06.role_after_reorder
#print axioms PyYetiVerif.C06.convert_reorder_commute
#print axioms PyYetiVerif.C06.cbcheck_errors
#print axioms PyYetiVerif.C06.cbcheck_returns_def
#print axioms PyYetiVerif.C06.cbcheck_option_independence
#print axioms PyYetiVerif.C06.cbcheck_no_modal_dof
#print axioms PyYetiVerif.C06.convert_qq_diag_invariant
#print axioms PyYetiVerif.C06.cbcheck_frq_conv_invariant
#print axioms PyYetiVerif.C06.flippv_order_indep
#print axioms PyYetiVerif.C06.reorder_drm_response
#print axioms PyYetiVerif.C06.convert_drm_response
#print axioms PyYetiVerif.C06.convert_drm_roundtrip
#print axioms PyYetiVerif.C06.conv_factors_inverse
