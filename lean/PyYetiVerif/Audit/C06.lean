import PyYetiVerif.Props.C06
import PyYetiVerif.Props.C06b
import PyYetiVerif.Props.C06c
#print axioms PyYetiVerif.C06.cgmass_recovers
#print axioms PyYetiVerif.C06.cgmass_recovers_general
#print axioms PyYetiVerif.C06.rbmove_comp
#print axioms PyYetiVerif.C06.rbmove_rbgeom
#print axioms PyYetiVerif.C06.reorder_pv_perm
#print axioms PyYetiVerif.C06.reorder_perm
#print axioms PyYetiVerif.C06.reorder_pencil
#print axioms PyYetiVerif.C06.uset_rank_correct
#print axioms PyYetiVerif.C06.convert_inverse
#print axioms PyYetiVerif.C06.convert_congruence
#print axioms PyYetiVerif.C06.convert_pencil
#print axioms PyYetiVerif.C06.stiffness_rb_eq_geometry
#print axioms PyYetiVerif.C06.grounding_iff
#print axioms PyYetiVerif.C06.effmass_total
#print axioms PyYetiVerif.C06.cbtf_satisfies_eom
#print axioms PyYetiVerif.C06.guyan_preserves_eigenpairs
#print axioms PyYetiVerif.C06.guyanK_eq_blocks
#print axioms PyYetiVerif.C06.psiResid_eq_blocks
#print axioms PyYetiVerif.C06.guyanExpand_rows
#print axioms PyYetiVerif.C06.null_trim_sound
#print axioms PyYetiVerif.C06.nullExpand_rows
#print axioms PyYetiVerif.C06.coordchk_trim_sound
#print axioms PyYetiVerif.C06.trimRef_spec
#print axioms PyYetiVerif.C06.rbdispchk_recovers_coords
#print axioms PyYetiVerif.C06.rbdispchk_recovers_grid
#print axioms PyYetiVerif.C06.coordchk_coords_local
#print axioms PyYetiVerif.C06.net_force_is_resultant
#print axioms PyYetiVerif.C06.net_drm_is_resultant
#print axioms PyYetiVerif.C06.net_force_is_resultant_local
#print axioms PyYetiVerif.C06.rbmult_eq_mul
#print axioms PyYetiVerif.C06.cbtf_static_limit
#print axioms PyYetiVerif.C06.cbtfStaticFrc_eq
