import PyYetiVerif.Props.C05
import PyYetiVerif.Props.C05Gen
import PyYetiVerif.Props.C05Struct
import PyYetiVerif.Props.C05TwoPass
import PyYetiVerif.Props.C05Dup
import PyYetiVerif.Props.C05Plateau
#print axioms PyYetiVerif.C05.count_total
#print axioms PyYetiVerif.C05.rows_total
#print axioms PyYetiVerif.C05.cycle_values
#print axioms PyYetiVerif.C05.cycle_values_abs
#print axioms PyYetiVerif.C05.offsets_variant_agrees
#print axioms PyYetiVerif.C05.loop_exit
#print axioms PyYetiVerif.C05.refines_astm
#print axioms PyYetiVerif.C05.negate
#print axioms PyYetiVerif.C05.shift
#print axioms PyYetiVerif.C05.scale
#print axioms PyYetiVerif.C05.largest_range_counted
#print axioms PyYetiVerif.C05.largest_range_needs_reversals
#print axioms PyYetiVerif.C05.generated_rainflow1_eq_model
#print axioms PyYetiVerif.C05.generated_rainflow2_eq_model
#print axioms PyYetiVerif.C05.generated_entry_eq_model
#print axioms PyYetiVerif.C05.generated_wrapper_eq_model
#print axioms PyYetiVerif.C05.generated_rainflow2_eq_model_field
#print axioms PyYetiVerif.C05.entry_refuses_iff
#print axioms PyYetiVerif.C05.entry_other_errors
#print axioms PyYetiVerif.C05.entry_impls_agree_partial
#print axioms PyYetiVerif.C05.entry_impls_agree_needs_safe
#print axioms PyYetiVerif.C05.entry_result_shape
#print axioms PyYetiVerif.C05.wrapper_is_relabel
#print axioms PyYetiVerif.C05.call_history_irrelevant
#print axioms PyYetiVerif.C05.rows_in_closing_order
#print axioms PyYetiVerif.C05.full_cycles_laminar
#print axioms PyYetiVerif.C05.starts_stops_unique
#print axioms PyYetiVerif.C05.residual_half_cycles_chain
#print axioms PyYetiVerif.C05.duplicate_first
#print axioms PyYetiVerif.C05.range_le_overall
#print axioms PyYetiVerif.C05.duplicate_first_field
#print axioms PyYetiVerif.C05.plateau_erases_point
#print axioms PyYetiVerif.C05.duplicate_insertion_not_harmless
#print axioms PyYetiVerif.C05.monotone_points_are_counted
#print axioms PyYetiVerif.C05.generated_c_rainflow1_eq_model
#print axioms PyYetiVerif.C05.generated_c_rainflow2_eq_model
#print axioms PyYetiVerif.C05.generated_c_eq_generated_py
#print axioms PyYetiVerif.C05.generated_c_rainflow1_twopass_eq_model
#print axioms PyYetiVerif.C05.generated_c_rainflow2_twopass_eq_model
#print axioms PyYetiVerif.C05.generated_c_twopass_eq_fast
#print axioms PyYetiVerif.C05.twopass_count_eq_length
#print axioms PyYetiVerif.C05.duplicate_insertion_interior
#print axioms PyYetiVerif.C05.plateau_zero_rows
#print axioms PyYetiVerif.C05.plateau_insertion_general
#print axioms PyYetiVerif.C05.plateau_ends_record
#print axioms PyYetiVerif.C05.plateau_at_start
#print axioms PyYetiVerif.C05.rainflow_plateau_parity
#print axioms PyYetiVerif.C05.rainflow_plateau_compress_false
