import PyYetiVerif.Props.C05
#print axioms PyYetiVerif.C05.count_total
#print axioms PyYetiVerif.C05.rows_total
#print axioms PyYetiVerif.C05.cycle_values
#print axioms PyYetiVerif.C05.cycle_values_abs
#print axioms PyYetiVerif.C05.offsets_variant_agrees
#print axioms PyYetiVerif.C05.loop_exit
#print axioms PyYetiVerif.C05.refines_astm
#print axioms PyYetiVerif.C05.negate
#print axioms PyYetiVerif.C05.shift
#print axioms PyYetiVerif.C05.scale
#print axioms PyYetiVerif.C05.largest_range_counted
#print axioms PyYetiVerif.C05.largest_range_needs_reversals
