import PyYetiVerif.Props.C01
import PyYetiVerif.Props.C01Part
import PyYetiVerif.Props.C01Static
import PyYetiVerif.Props.C01Unique
import PyYetiVerif.Props.C01Coupled
import PyYetiVerif.Props.C01Delconj
import PyYetiVerif.Props.C01Exp
import PyYetiVerif.Props.C01Exp1
import PyYetiVerif.Props.C01Rb
import PyYetiVerif.Props.C01StaticC
import PyYetiVerif.Props.C01PreEig
import PyYetiVerif.Props.C01Cuts
import PyYetiVerif.Props.C01CplxUnc
import PyYetiVerif.Props.C01CplxUncFixed
#print axioms PyYetiVerif.C01.su_solves_ode_under
#print axioms PyYetiVerif.C01.su_solves_ode_over
#print axioms PyYetiVerif.C01.su_solves_ode_crit
#print axioms PyYetiVerif.C01.su_solves_ode_rb
#print axioms PyYetiVerif.C01.su_solves_ode_rb_damped
#print axioms PyYetiVerif.C01.su_solves_ode
#print axioms PyYetiVerif.C01.su_coef_eq
#print axioms PyYetiVerif.C01.order0_exact
#print axioms PyYetiVerif.C01.rigidVelo_velocity_exact
#print axioms PyYetiVerif.C01.rf_static
#print axioms PyYetiVerif.C01.run_exact
#print axioms PyYetiVerif.C01.run_length
#print axioms PyYetiVerif.C01.accel_eom
#print axioms PyYetiVerif.C01.mNone_eq_mOne
#print axioms PyYetiVerif.C01.cplx_solves_ode
#print axioms PyYetiVerif.C01.cplx_coef_eq
#print axioms PyYetiVerif.C01.cplx_small_exact
#print axioms PyYetiVerif.C01.partition_ok
#print axioms PyYetiVerif.C01.rb_order_agrees
#print axioms PyYetiVerif.C01.el_order_agrees
#print axioms PyYetiVerif.C01.partition_auto_ok
#print axioms PyYetiVerif.C01.small_unc_iff
#print axioms PyYetiVerif.C01.small_coupled_iff
#print axioms PyYetiVerif.C01.mkSlice_spec
#print axioms PyYetiVerif.C01.slicesFlag_iff
#print axioms PyYetiVerif.C01.rf_static_rows
#print axioms PyYetiVerif.C01.static_ic_ok
#print axioms PyYetiVerif.C01.explicit_ic
#print axioms PyYetiVerif.C01.zero_ic
#print axioms PyYetiVerif.C01.isSol_unique
#print axioms PyYetiVerif.C01.su_solves_ode_unique
#print axioms PyYetiVerif.C01.run_exact_unique
#print axioms PyYetiVerif.C01.decoupled_recovers
#print axioms PyYetiVerif.C01.coupled_step_exact
#print axioms PyYetiVerif.C01.coupled_run_exact
#print axioms PyYetiVerif.C01.sol2R_exists
#print axioms PyYetiVerif.C01.delconj_recovers
#print axioms PyYetiVerif.C01.coupled_run_exact_real
#print axioms PyYetiVerif.C01.oscKept_spec
#print axioms PyYetiVerif.C01.exp2_step_exact
#print axioms PyYetiVerif.C01.exp2_run_exact
#print axioms PyYetiVerif.C01.freeA_spec
#print axioms PyYetiVerif.C01.exp1_step_exact
#print axioms PyYetiVerif.C01.exp1_run_exact
#print axioms PyYetiVerif.C01.exp1_history_not_converted
#print axioms PyYetiVerif.C01.exp1_velo_is_derivative
#print axioms PyYetiVerif.C01.exp1_init
#print axioms PyYetiVerif.C01.zeroA_spec
#print axioms PyYetiVerif.C01.rb_step_is_rigid_regime
#print axioms PyYetiVerif.C01.rb_step_exact
#print axioms PyYetiVerif.C01.rb_run_is_runUnc
#print axioms PyYetiVerif.C01.rb_run_exact
#print axioms PyYetiVerif.C01.lin_solve_spec
#print axioms PyYetiVerif.C01.mass_solve_spec
#print axioms PyYetiVerif.C01.static_ic_coupled_is_equilibrium
#print axioms PyYetiVerif.C01.static_ic_coupled_accel_zero
#print axioms PyYetiVerif.C01.accel_coupled_eom
#print axioms PyYetiVerif.C01.pre_eig_solution_is_solution
#print axioms PyYetiVerif.C01.pre_eig_mass_forms_agree
#print axioms PyYetiVerif.C01.pre_eig_damping_forms_agree
#print axioms PyYetiVerif.C01.pre_eig_ic_consistent
#print axioms PyYetiVerif.C01.pre_eig_ic_is_phiT_M
#print axioms PyYetiVerif.C01.pre_eig_first_sample
#print axioms PyYetiVerif.C01.cuts_as_documented
#print axioms PyYetiVerif.C01.crit_regimes_partition
#print axioms PyYetiVerif.C01.classify_elastic_spec
#print axioms PyYetiVerif.C01.classify_rb_spec
#print axioms PyYetiVerif.C01.classify_auto_rb_iff
#print axioms PyYetiVerif.C01.complex_unc_rb_row_is_undamped
#print axioms PyYetiVerif.C01.isSol_unit_mass_scale
#print axioms PyYetiVerif.C01.complex_unc_rb_exact_partial
#print axioms PyYetiVerif.C01.complex_unc_damped_rb_counterexample
#print axioms PyYetiVerif.C01.complex_recovery_real_part
#print axioms PyYetiVerif.C01.complex_dtype_real_system_response_is_real
#print axioms PyYetiVerif.C01.isSol_unit_mass_scale_damped
#print axioms PyYetiVerif.C01.complex_unc_rb_exact_fixed
#print axioms PyYetiVerif.C01.rb_step_unit_mass
#print axioms PyYetiVerif.C01.runUnc_map_of_step
#print axioms PyYetiVerif.C01.complex_unc_rb_fixed_is_real_path
#print axioms PyYetiVerif.C01.complex_unc_rb_fixed_velo_exact
#print axioms PyYetiVerif.C01.complex_unc_rb_fixed_undamped_unchanged
#print axioms PyYetiVerif.C01.complex_unc_damped_rb_counterexample_fixed
#print axioms PyYetiVerif.C01.complex_unc_rb_rows_fixed_spec
