import PyYetiVerif.Props.C14
#print axioms PyYetiVerif.C14.abc_orthonormal
#print axioms PyYetiVerif.C14.mkCoord_orthonormal
#print axioms PyYetiVerif.C14.chain_orthonormal
#print axioms PyYetiVerif.C14.cyl_roundtrip
#print axioms PyYetiVerif.C14.cyl_roundtrip_inv
#print axioms PyYetiVerif.C14.sph_roundtrip
#print axioms PyYetiVerif.C14.chain_consistent_point
#print axioms PyYetiVerif.C14.chain_consistent_rect
#print axioms PyYetiVerif.C14.chain_consistent_cyl
#print axioms PyYetiVerif.C14.chain_compose
#print axioms PyYetiVerif.C14.rb_is_rigid
#print axioms PyYetiVerif.C14.local_frame_orthonormal
#print axioms PyYetiVerif.C14.rb_matches_geometry
#print axioms PyYetiVerif.C14.rbmove_consistent
#print axioms PyYetiVerif.C14.rbmove_rows
#print axioms PyYetiVerif.C14.rbcoords_recovers
#print axioms PyYetiVerif.C14.replace_basic_rigid
