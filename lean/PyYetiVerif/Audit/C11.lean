import PyYetiVerif.Props.C11
#print axioms PyYetiVerif.C11.real_codecs
#print axioms PyYetiVerif.C11.op4_variant_roundtrip_bigmat
#print axioms PyYetiVerif.C11.op4_variant_roundtrip_nonbigmat
#print axioms PyYetiVerif.C11.put_reals_spec
#print axioms PyYetiVerif.C11.partition_irrelevant
#print axioms PyYetiVerif.C11.skip_positions
#print axioms PyYetiVerif.C11.dir_matches_load
