import PyYetiVerif.Props.C11
import PyYetiVerif.Props.C11b
import PyYetiVerif.Props.C11c
import PyYetiVerif.Props.C11d
import PyYetiVerif.Props.C11e
#print axioms PyYetiVerif.C11.real_codecs
#print axioms PyYetiVerif.C11.op4_variant_roundtrip_bigmat
#print axioms PyYetiVerif.C11.op4_variant_roundtrip_nonbigmat
#print axioms PyYetiVerif.C11.put_reals_spec
#print axioms PyYetiVerif.C11.partition_irrelevant
#print axioms PyYetiVerif.C11.skip_positions
#print axioms PyYetiVerif.C11.dir_matches_load
#print axioms PyYetiVerif.C11.op2_int_roundtrip
#print axioms PyYetiVerif.C11.op2_key_roundtrip
#print axioms PyYetiVerif.C11.op2_header_roundtrip
#print axioms PyYetiVerif.C11.op2_nt_roundtrip
#print axioms PyYetiVerif.C11.op2_matrix_roundtrip
#print axioms PyYetiVerif.C11.op2_partition_irrelevant
#print axioms PyYetiVerif.C11.op2_cutoff_irrelevant
#print axioms PyYetiVerif.C11.op2_skip_positions
#print axioms PyYetiVerif.C11.op2_skip_record
#print axioms PyYetiVerif.C11.op2_table_roundtrip
#print axioms PyYetiVerif.C11.op2_open_detects
#print axioms PyYetiVerif.C11.op2_dir_matches_read
#print axioms PyYetiVerif.C11.op2_roundtrip
#print axioms PyYetiVerif.C11.op2_skip_positions_general
#print axioms PyYetiVerif.C11.op2_skip_record_general
#print axioms PyYetiVerif.C11.op2_goto_next
#print axioms PyYetiVerif.C11.op4_variant_file_roundtrip
#print axioms PyYetiVerif.C11.skip_positions_variants
#print axioms PyYetiVerif.C11.dir_matches_load_variants
#print axioms PyYetiVerif.C11.namelist_test_exact
#print axioms PyYetiVerif.C11.named_subset_is_filter_binary
#print axioms PyYetiVerif.C11.op4_cutoff_paths_agree
#print axioms PyYetiVerif.C11.op4_cutoff_irrelevant_enc
#print axioms PyYetiVerif.C11.op4_cutoff_irrelevant
#print axioms PyYetiVerif.C11.op4_variant_dense_matrix
#print axioms PyYetiVerif.C11.mem_puts_iff
#print axioms PyYetiVerif.C11.dct_keeps_last
#print axioms PyYetiVerif.C11.namelist_is_filter
#print axioms PyYetiVerif.C11.skip_positions_ascii
#print axioms PyYetiVerif.C11.dir_is_iterated_skip
#print axioms PyYetiVerif.C11.dir_matches_load_ascii
#print axioms PyYetiVerif.C11.named_subset_is_filter_ascii
#print axioms PyYetiVerif.C11.dir_matches_load_ascii_written
#print axioms PyYetiVerif.C11.rdRecord_form_consistent
#print axioms PyYetiVerif.C11.rdRecord_N_irrelevant
#print axioms PyYetiVerif.C11.op2_tabheaders_any_pieces
#print axioms PyYetiVerif.C11.op2_tabheader_prefix
#print axioms PyYetiVerif.C11.op2_name_test_exact
#print axioms PyYetiVerif.C11.op2_has_match_any
#print axioms PyYetiVerif.C11.op2_named_subset_is_filter
#print axioms PyYetiVerif.C11.op2_which_indexing
#print axioms PyYetiVerif.C11.op2_which_occurrence
