import PyYetiVerif.Props.C17
#print axioms PyYetiVerif.C17.newmark_is_documented
#print axioms PyYetiVerif.C17.newmark_central_differences
#print axioms PyYetiVerif.C17.newmark_consistent
#print axioms PyYetiVerif.C17.newmark_startup_defect
#print axioms PyYetiVerif.C17.newmark_startup_exact_iff
#print axioms PyYetiVerif.C17.newmark_stable_scalar
#print axioms PyYetiVerif.C17.massless_ok
#print axioms PyYetiVerif.C17.cdf_is_documented
#print axioms PyYetiVerif.C17.cdf_diag_eq_unc
