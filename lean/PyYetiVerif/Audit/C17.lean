import PyYetiVerif.Props.C17
import PyYetiVerif.Props.C17Conv
import PyYetiVerif.Props.C17Stab
import PyYetiVerif.Props.C17Cdf
#print axioms PyYetiVerif.C17.newmark_is_documented
#print axioms PyYetiVerif.C17.newmark_central_differences
#print axioms PyYetiVerif.C17.newmark_consistent
#print axioms PyYetiVerif.C17.newmark_startup_defect
#print axioms PyYetiVerif.C17.newmark_startup_exact_iff
#print axioms PyYetiVerif.C17.newmark_stable_scalar
#print axioms PyYetiVerif.C17.massless_ok
#print axioms PyYetiVerif.C17.cdf_is_documented
#print axioms PyYetiVerif.C17.cdf_diag_eq_unc
#print axioms PyYetiVerif.C17.newmark_run_is_sequence
#print axioms PyYetiVerif.C17.newmark_error_recursion
#print axioms PyYetiVerif.C17.newmark_truncation_bound
#print axioms PyYetiVerif.C17.newmark_startup_error_bound
#print axioms PyYetiVerif.C17.newmark_converges_scalar
#print axioms PyYetiVerif.C17.newmark_converges_scalar_second_order
#print axioms PyYetiVerif.C17.newmark_energy_identity
#print axioms PyYetiVerif.C17.newmark_power_bounded_scalar
#print axioms PyYetiVerif.C17.newmark_energy_stable
#print axioms PyYetiVerif.C17.newmark_free_response_bounded
#print axioms PyYetiVerif.C17.newmark_stable_full
#print axioms PyYetiVerif.C17.newmark_stable_modal
#print axioms PyYetiVerif.C17.massless_rows_quasistatic
#print axioms PyYetiVerif.C17.rf_rows_static
#print axioms PyYetiVerif.C17.cdf_alpha_identity
#print axioms PyYetiVerif.C17.cdf_alpha_transpose_solve
#print axioms PyYetiVerif.C17.cdf_alpha_transposed_variant_differs
#print axioms PyYetiVerif.C17.cdf_step_is_exact_for_interpolated_damping_force
#print axioms PyYetiVerif.C17.cdf_run_is_unc_with_damping_force
