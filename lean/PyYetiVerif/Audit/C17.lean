import PyYetiVerif.Props.C17
import PyYetiVerif.Props.C17Conv
import PyYetiVerif.Props.C17Stab
import PyYetiVerif.Props.C17Cdf
import PyYetiVerif.Props.C17Vel
import PyYetiVerif.Props.C17Modal
import PyYetiVerif.Props.C17Energy
import PyYetiVerif.Props.C17Nonlin
import PyYetiVerif.Props.C17Opt
import PyYetiVerif.Props.C17CdfConv
#print axioms PyYetiVerif.C17.newmark_is_documented
#print axioms PyYetiVerif.C17.newmark_central_differences
#print axioms PyYetiVerif.C17.newmark_consistent
#print axioms PyYetiVerif.C17.newmark_startup_defect
#print axioms PyYetiVerif.C17.newmark_startup_exact_iff
#print axioms PyYetiVerif.C17.newmark_stable_scalar
#print axioms PyYetiVerif.C17.massless_ok
#print axioms PyYetiVerif.C17.cdf_is_documented
#print axioms PyYetiVerif.C17.cdf_diag_eq_unc
#print axioms PyYetiVerif.C17.newmark_run_is_sequence
#print axioms PyYetiVerif.C17.newmark_error_recursion
#print axioms PyYetiVerif.C17.newmark_truncation_bound
#print axioms PyYetiVerif.C17.newmark_startup_error_bound
#print axioms PyYetiVerif.C17.newmark_converges_scalar
#print axioms PyYetiVerif.C17.newmark_converges_scalar_second_order
#print axioms PyYetiVerif.C17.newmark_energy_identity
#print axioms PyYetiVerif.C17.newmark_power_bounded_scalar
#print axioms PyYetiVerif.C17.newmark_energy_stable
#print axioms PyYetiVerif.C17.newmark_free_response_bounded
#print axioms PyYetiVerif.C17.newmark_stable_full
#print axioms PyYetiVerif.C17.newmark_stable_modal
#print axioms PyYetiVerif.C17.massless_rows_quasistatic
#print axioms PyYetiVerif.C17.rf_rows_static
#print axioms PyYetiVerif.C17.cdf_alpha_identity
#print axioms PyYetiVerif.C17.cdf_alpha_transpose_solve
#print axioms PyYetiVerif.C17.cdf_alpha_transposed_variant_differs
#print axioms PyYetiVerif.C17.cdf_step_is_exact_for_interpolated_damping_force
#print axioms PyYetiVerif.C17.cdf_run_is_unc_with_damping_force
#print axioms PyYetiVerif.C17.newmark_velocity_is_central_difference
#print axioms PyYetiVerif.C17.convK_eq_convE
#print axioms PyYetiVerif.C17.newmark_velocity_converges_scalar
#print axioms PyYetiVerif.C17.newmark_accel_converges_scalar
#print axioms PyYetiVerif.C17.newmark_initial_accel_error_scalar
#print axioms PyYetiVerif.C17.newmark_initial_accel_first_order
#print axioms PyYetiVerif.C17.newmark_initial_accel_defect
#print axioms PyYetiVerif.C17.newmark_last_step_converges_scalar
#print axioms PyYetiVerif.C17.newmark_modal_decomposition
#print axioms PyYetiVerif.C17.newmark_converges_modal_full
#print axioms PyYetiVerif.C17.newmark_velocity_converges_modal_full
#print axioms PyYetiVerif.C17.newmark_energy_stable_full
#print axioms PyYetiVerif.C17.newmark_truncation_bound_full
#print axioms PyYetiVerif.C17.newmark_converges_energy_partial
#print axioms PyYetiVerif.C17.newmark_converges_energy
#print axioms PyYetiVerif.C17.newmark_converges_energy_second_order
#print axioms PyYetiVerif.C17.newmark_nonlin_is_documented
#print axioms PyYetiVerif.C17.nonlin_zero_is_linear
#print axioms PyYetiVerif.C17.nonlin_z_is_callback_output
#print axioms PyYetiVerif.C17.def_nonlin_call_sequence
#print axioms PyYetiVerif.C17.def_nonlin_copies_at_call
#print axioms PyYetiVerif.C17.nonlin_rf_nonrf_part_is_run
#print axioms PyYetiVerif.C17.nonlin_rf_placement_irrelevant
#print axioms PyYetiVerif.C17.mNone_is_identity_mass
#print axioms PyYetiVerif.C17.mNone_scalar_coefficients
#print axioms PyYetiVerif.C17.rf_rows_static_full
#print axioms PyYetiVerif.C17.cdf_order0_is_order1_with_held_force
#print axioms PyYetiVerif.C17.cdf_accel_eom
#print axioms PyYetiVerif.C17.cdf_f2x_is_step_sensitivity
#print axioms PyYetiVerif.C17.cdf_f2x_matrix
#print axioms PyYetiVerif.C17.cdf_run_is_sequence
#print axioms PyYetiVerif.C17.cdf_error_recursion
#print axioms PyYetiVerif.C17.cdf_converges_partial
#print axioms PyYetiVerif.C17.cdf_local_error
#print axioms PyYetiVerif.C17.cdf_stable_two_dof
