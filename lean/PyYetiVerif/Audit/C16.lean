import PyYetiVerif.Props.C16
#print axioms PyYetiVerif.C16.ext_is_fold_max
#print axioms PyYetiVerif.C16.spec_determines_result
#print axioms PyYetiVerif.C16.ext_values_order_independent
#print axioms PyYetiVerif.C16.envelope_of_parts
#print axioms PyYetiVerif.C16.time_recovery_is_global_extreme
#print axioms PyYetiVerif.C16.srs_env_is_max
#print axioms PyYetiVerif.C16.srs_env_order_independent
#print axioms PyYetiVerif.C16.srs_env_form
#print axioms PyYetiVerif.C16.percase_columns
#print axioms PyYetiVerif.C16.ext_is_fold_absmax_onecol
#print axioms PyYetiVerif.C16.onecol_broadcast_counterexample
#print axioms PyYetiVerif.C16.uf_split
#print axioms PyYetiVerif.C16.uf_unit
#print axioms PyYetiVerif.C16.uf_scaling
#print axioms PyYetiVerif.C16.cache_transparent
