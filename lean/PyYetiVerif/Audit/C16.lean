import PyYetiVerif.Props.C16
import PyYetiVerif.Props.C16Full
import PyYetiVerif.Props.C16FullRoutine
import PyYetiVerif.Props.C16Pipe
import PyYetiVerif.Props.C16Psd
#print axioms PyYetiVerif.C16.ext_is_fold_max
#print axioms PyYetiVerif.C16.spec_determines_result
#print axioms PyYetiVerif.C16.ext_values_order_independent
#print axioms PyYetiVerif.C16.envelope_of_parts
#print axioms PyYetiVerif.C16.time_recovery_is_global_extreme
#print axioms PyYetiVerif.C16.srs_env_is_max
#print axioms PyYetiVerif.C16.srs_env_order_independent
#print axioms PyYetiVerif.C16.srs_env_form
#print axioms PyYetiVerif.C16.percase_columns
#print axioms PyYetiVerif.C16.ext_is_fold_absmax_onecol
#print axioms PyYetiVerif.C16.onecol_broadcast_counterexample
#print axioms PyYetiVerif.C16.uf_split
#print axioms PyYetiVerif.C16.uf_unit
#print axioms PyYetiVerif.C16.uf_scaling
#print axioms PyYetiVerif.C16.cache_transparent
#print axioms PyYetiVerif.C16.uf_split_full
#print axioms PyYetiVerif.C16.uf_scaling_full
#print axioms PyYetiVerif.C16.uf_unit_full
#print axioms PyYetiVerif.C16.cache_transparent_full
#print axioms PyYetiVerif.C16.cache_transparent_blocks
#print axioms PyYetiVerif.C16.frf_recovery_is_abs_extreme
#print axioms PyYetiVerif.C16.merge_of_disjoint_case_sets_is_one_pass
#print axioms PyYetiVerif.C16.merge_refuses_duplicates
#print axioms PyYetiVerif.C16.store_refuses_duplicates
#print axioms PyYetiVerif.C16.calc_ext_is_fold_max
#print axioms PyYetiVerif.C16.psd_recovery_is_sum_over_forces
#print axioms PyYetiVerif.C16.psd_row_is_sum_over_forces
#print axioms PyYetiVerif.C16.rms_is_trapz_sqrt
#print axioms PyYetiVerif.C16.peak_is_factor_times_rms
#print axioms PyYetiVerif.C16.meansquare_is_linear
#print axioms PyYetiVerif.C16.psd_recovery_is_peak_extreme
#print axioms PyYetiVerif.C16.uf_split_full_routine
#print axioms PyYetiVerif.C16.stat_ext_sanity
#print axioms PyYetiVerif.C16.uf_scaling_full_routine
#print axioms PyYetiVerif.C16.uf_unit_full_routine
