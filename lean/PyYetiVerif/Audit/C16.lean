import PyYetiVerif.Props.C16
import PyYetiVerif.Props.C16Full
import PyYetiVerif.Props.C16FullRoutine
import PyYetiVerif.Props.C16Pipe
import PyYetiVerif.Props.C16Psd
import PyYetiVerif.Props.C16FullRf
import PyYetiVerif.Props.C16Stat
import PyYetiVerif.Props.C16Tree
import PyYetiVerif.Props.C16Heap
import PyYetiVerif.Props.C16Labels
import PyYetiVerif.Props.C16Split
import PyYetiVerif.Props.C16LabelsNest
#print axioms PyYetiVerif.C16.ext_is_fold_max
#print axioms PyYetiVerif.C16.spec_determines_result
#print axioms PyYetiVerif.C16.ext_values_order_independent
#print axioms PyYetiVerif.C16.envelope_of_parts
#print axioms PyYetiVerif.C16.time_recovery_is_global_extreme
#print axioms PyYetiVerif.C16.srs_env_is_max
#print axioms PyYetiVerif.C16.srs_env_order_independent
#print axioms PyYetiVerif.C16.srs_env_form
#print axioms PyYetiVerif.C16.percase_columns
#print axioms PyYetiVerif.C16.ext_is_fold_absmax_onecol
#print axioms PyYetiVerif.C16.onecol_broadcast_counterexample
#print axioms PyYetiVerif.C16.uf_split
#print axioms PyYetiVerif.C16.uf_unit
#print axioms PyYetiVerif.C16.uf_scaling
#print axioms PyYetiVerif.C16.cache_transparent
#print axioms PyYetiVerif.C16.uf_split_full
#print axioms PyYetiVerif.C16.uf_scaling_full
#print axioms PyYetiVerif.C16.uf_unit_full
#print axioms PyYetiVerif.C16.cache_transparent_full
#print axioms PyYetiVerif.C16.cache_transparent_blocks
#print axioms PyYetiVerif.C16.frf_recovery_is_abs_extreme
#print axioms PyYetiVerif.C16.merge_of_disjoint_case_sets_is_one_pass
#print axioms PyYetiVerif.C16.merge_refuses_duplicates
#print axioms PyYetiVerif.C16.store_refuses_duplicates
#print axioms PyYetiVerif.C16.calc_ext_is_fold_max
#print axioms PyYetiVerif.C16.psd_recovery_is_sum_over_forces
#print axioms PyYetiVerif.C16.psd_row_is_sum_over_forces
#print axioms PyYetiVerif.C16.rms_is_trapz_sqrt
#print axioms PyYetiVerif.C16.peak_is_factor_times_rms
#print axioms PyYetiVerif.C16.meansquare_is_linear
#print axioms PyYetiVerif.C16.psd_recovery_is_peak_extreme
#print axioms PyYetiVerif.C16.uf_split_full_routine
#print axioms PyYetiVerif.C16.stat_ext_sanity
#print axioms PyYetiVerif.C16.uf_scaling_full_routine
#print axioms PyYetiVerif.C16.uf_unit_full_routine
#print axioms PyYetiVerif.C16.rows_partition
#print axioms PyYetiVerif.C16.uf_scaling_full_routine_rf
#print axioms PyYetiVerif.C16.uf_unit_full_routine_rf
#print axioms PyYetiVerif.C16.cache_transparent_full_rf
#print axioms PyYetiVerif.C16.rf_forms_agree
#print axioms PyYetiVerif.C16.stat_ext_def
#print axioms PyYetiVerif.C16.stat_ext_order_independent
#print axioms PyYetiVerif.C16.stat_ext_monotone_in_k
#print axioms PyYetiVerif.C16.form_extreme_idempotent
#print axioms PyYetiVerif.C16.form_extreme_keeps_parts
#print axioms PyYetiVerif.C16.delete_extreme_spec
#print axioms PyYetiVerif.C16.nested_traversal_order
#print axioms PyYetiVerif.C16.form_extreme_flat_is_envelope
#print axioms PyYetiVerif.C16.form_extreme_does_not_modify_parts
#print axioms PyYetiVerif.C16.aliased_first_call_modifies_part
#print axioms PyYetiVerif.C16.psd_srs_env_is_max_over_cases
#print axioms PyYetiVerif.C16.psd_srs_case_scaling
#print axioms PyYetiVerif.C16.heap_run_is_run2
#print axioms PyYetiVerif.C16.nested_envelope_is_recursive_extrema
#print axioms PyYetiVerif.C16.merge_lists_spec
#print axioms PyYetiVerif.C16.form_extreme_by_label
#print axioms PyYetiVerif.C16.form_extreme_row_is_first_best
#print axioms PyYetiVerif.C16.form_extreme_label_order
#print axioms PyYetiVerif.C16.expand_missing_rows_neutral
#print axioms PyYetiVerif.C16.form_extreme_event_order_values_independent
#print axioms PyYetiVerif.C16.form_extreme_refuses_repeated_labels
#print axioms PyYetiVerif.C16.form_extreme_accepts_differing_rows
#print axioms PyYetiVerif.C16.abscissa_of_governing_event_mixed
#print axioms PyYetiVerif.C16.cases_label_matches_column
#print axioms PyYetiVerif.C16.split_pairs_cases_with_columns
#print axioms PyYetiVerif.C16.uf_reds_none_entries_documented
#print axioms PyYetiVerif.C16.form_extreme_nested_by_label_values
