import PyYetiVerif.Props.C13
#print axioms PyYetiVerif.C13.thru_roundtrip
#print axioms PyYetiVerif.C13.thru_maximal
#print axioms PyYetiVerif.C13.nasints_layout
#print axioms PyYetiVerif.C13.nasints_columns
#print axioms PyYetiVerif.C13.spoint_roundtrip
#print axioms PyYetiVerif.C13.csuper_roundtrip
#print axioms PyYetiVerif.C13.extrn_roundtrip
#print axioms PyYetiVerif.C13.set_wrap_roundtrip
#print axioms PyYetiVerif.C13.wrap_line_length
#print axioms PyYetiVerif.C13.tabled1_layout
#print axioms PyYetiVerif.C13.fixed_field_slicing
#print axioms PyYetiVerif.C13.dmig_structure
#print axioms PyYetiVerif.C13.dmig_form6_iff
#print axioms PyYetiVerif.C13.dmig_roundtrip
#print axioms PyYetiVerif.C13.dmig_ncol_form9
#print axioms PyYetiVerif.C13.dmig_header_ncol
