import PyYetiVerif.Props.C13
import PyYetiVerif.Props.C13Text
import PyYetiVerif.Props.C13Dmig
import PyYetiVerif.Props.C13Grid
import PyYetiVerif.Props.C13Cord
import PyYetiVerif.Props.C13DmigX
import PyYetiVerif.Props.C13Fmt
import PyYetiVerif.Props.C13Multi
import PyYetiVerif.Props.C13Values
import PyYetiVerif.Props.C13Uset
import PyYetiVerif.Props.C13Set
import PyYetiVerif.Props.C13ValuesTab
import PyYetiVerif.Props.C13SetIff
import PyYetiVerif.Props.C13FileOK
#print axioms PyYetiVerif.C13.thru_roundtrip
#print axioms PyYetiVerif.C13.thru_maximal
#print axioms PyYetiVerif.C13.nasints_layout
#print axioms PyYetiVerif.C13.nasints_columns
#print axioms PyYetiVerif.C13.spoint_roundtrip
#print axioms PyYetiVerif.C13.csuper_roundtrip
#print axioms PyYetiVerif.C13.extrn_roundtrip
#print axioms PyYetiVerif.C13.set_wrap_roundtrip
#print axioms PyYetiVerif.C13.wrap_line_length
#print axioms PyYetiVerif.C13.tabled1_layout
#print axioms PyYetiVerif.C13.fixed_field_slicing
#print axioms PyYetiVerif.C13.dmig_structure
#print axioms PyYetiVerif.C13.dmig_form6_iff
#print axioms PyYetiVerif.C13.dmig_roundtrip
#print axioms PyYetiVerif.C13.dmig_ncol_form9
#print axioms PyYetiVerif.C13.dmig_header_ncol
#print axioms PyYetiVerif.C13.int_field_roundtrip
#print axioms PyYetiVerif.C13.int_field_padL
#print axioms PyYetiVerif.C13.set_roundtrip
#print axioms PyYetiVerif.C13.set_any_wrap
#print axioms PyYetiVerif.C13.tabled1_roundtrip
#print axioms PyYetiVerif.C13.spoint_lines_roundtrip
#print axioms PyYetiVerif.C13.csuper_lines_roundtrip
#print axioms PyYetiVerif.C13.extrn_lines_roundtrip
#print axioms PyYetiVerif.C13.dmig_roundtrip_converse
#print axioms PyYetiVerif.C13.dmig_assignments_iff
#print axioms PyYetiVerif.C13.dmig_reader_on_written
#print axioms PyYetiVerif.C13.dmig_frame_roundtrip
#print axioms PyYetiVerif.C13.dmig_value_field
#print axioms PyYetiVerif.C13.dmig_lines_cards
#print axioms PyYetiVerif.C13.dmig_text_roundtrip
#print axioms PyYetiVerif.C13.vecwrite_length_rule
#print axioms PyYetiVerif.C13.vecwrite_mismatch_raises
#print axioms PyYetiVerif.C13.vecwrite_broadcast
#print axioms PyYetiVerif.C13.wtgrids_packaging
#print axioms PyYetiVerif.C13.wtgrids_mismatch_raises
#print axioms PyYetiVerif.C13.grid_roundtrip
#print axioms PyYetiVerif.C13.cord2_roundtrip
#print axioms PyYetiVerif.C13.uset_roundtrip
#print axioms PyYetiVerif.C13.rddmig_default_is_plain
#print axioms PyYetiVerif.C13.rddmig_options_same_cells
#print axioms PyYetiVerif.C13.rddmig_square_index
#print axioms PyYetiVerif.C13.rddmig_expanded_index
#print axioms PyYetiVerif.C13.rddmig_expanded_spec
#print axioms PyYetiVerif.C13.rddmig_square_spec
#print axioms PyYetiVerif.C13.rddmig_options_on_lines
#print axioms PyYetiVerif.C13.bulk_format_widths_ok
#print axioms PyYetiVerif.C13.dmig_lines_are_templates
#print axioms PyYetiVerif.C13.grid_card_is_template
#print axioms PyYetiVerif.C13.cord_card_is_template
#print axioms PyYetiVerif.C13.nasints_is_template
#print axioms PyYetiVerif.C13.set_tokens_are_templates
#print axioms PyYetiVerif.C13.tabled1_is_template
#print axioms PyYetiVerif.C13.readers_independent
#print axioms PyYetiVerif.C13.typed_readers_independent
#print axioms PyYetiVerif.C13.sets_in_file
#print axioms PyYetiVerif.C13.wtset_is_segment
#print axioms PyYetiVerif.C13.real_field_reads
#print axioms PyYetiVerif.C13.real_field_accuracy
#print axioms PyYetiVerif.C13.real_field_clean
#print axioms PyYetiVerif.C13.tabled1_roundtrip_values
#print axioms PyYetiVerif.C13.grid_roundtrip_values
#print axioms PyYetiVerif.C13.cord2_roundtrip_values
#print axioms PyYetiVerif.C13.dmig_roundtrip_values
#print axioms PyYetiVerif.C13.dmig_lines_int_instance
#print axioms PyYetiVerif.C13.uset_bulk_roundtrip_labels
#print axioms PyYetiVerif.C13.uset_bulk_roundtrip_labels_full
#print axioms PyYetiVerif.C13.set_header_split_fails
#print axioms PyYetiVerif.C13.set_roundtrip_iff_partial
#print axioms PyYetiVerif.C13.set_header_split1_fails
#print axioms PyYetiVerif.C13.set_item_cut_reads
#print axioms PyYetiVerif.C13.set_item_cut_fails
#print axioms PyYetiVerif.C13.set_roundtrip_iff
#print axioms PyYetiVerif.C13.dmig_field_fits
#print axioms PyYetiVerif.C13.dmig_terms_in_range
#print axioms PyYetiVerif.C13.tabled1_all_doubles
#print axioms PyYetiVerif.C13.tabled1_default_eq_before_fix
#print axioms PyYetiVerif.C13.tabled1_default_differs_iff
#print axioms PyYetiVerif.C13.file_ok_of_blocks
#print axioms PyYetiVerif.C13.written_file_ok
#print axioms PyYetiVerif.C13.typed_readers_independent_written
#print axioms PyYetiVerif.C13.readers_independent_written
