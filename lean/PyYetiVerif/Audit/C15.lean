import PyYetiVerif.Props.C15
#print axioms PyYetiVerif.C15.nt_algebra
#print axioms PyYetiVerif.C15.nt_solves_coupled
#print axioms PyYetiVerif.C15.nt_algebra_matrix
#print axioms PyYetiVerif.C15.nt_equals_coupled
#print axioms PyYetiVerif.C15.am_inverse
#print axioms PyYetiVerif.C15.tam_additive
#print axioms PyYetiVerif.C15.forms_agree
#print axioms PyYetiVerif.C15.forms_agree_cbtf
#print axioms PyYetiVerif.C15.accImp_additive
#print axioms PyYetiVerif.C15.am_rigid_limit
#print axioms PyYetiVerif.C15.forms_agree_empty_qset
#print axioms PyYetiVerif.C15.pv_empty_qset_order_matters
#print axioms PyYetiVerif.C15.layout_injective
#print axioms PyYetiVerif.C15.layout_in_bounds
